"""R-JOHNSON / R-EXHAUSTIVE — the backup procedure of the original GJK (C18, C09).

(a) the column -> vertex-subset table of the cofactor array d[vertex, case] is DERIVED from the stores found in
    BarycentricCoordinates (which rows of d[:, c] are ever written);
(b) every candidate block of _backup_procedure_{line_segment,face,tetrahedron} uses the cofactors of its own subset, in
    the order of its vertex list, guarded by a predicate reading the same column, accepted under a strict `<`, and
    records exactly its vertex list in ordered_indices;
(c) the blocks enumerate every non-empty sub-simplex (3 / 7 / 15);
(d) Solution.from_* normalise the weights and apply them to the listed vertices in order.
"""
import ast
import copy
import itertools
import re

from ..core.astutil import u, call_name, calls, iter_stmts, const, index_elts, ncmp, dot_args, strip_docstring
from ..core.index import AnalysisError
from ..core.inline import normalise_statements, inline_single_exit_helpers

O = "distance3d.gjk._gjk_original"
# the one documented tie rule: face 1-2-3 may replace an equally good interior solution
TIE_EXCEPTIONS = {"_backup_procedure_tetrahedron|(1, 2, 3)": "documented tie rule of the original Fortran code: the last face wins a tie against the 4-point solution"}


def _d_access(n):
    """self.d[r, c] / d.d[r, c] -> (r, c) constants else None"""
    if isinstance(n, ast.Subscript) and isinstance(n.value, ast.Attribute) and n.value.attr == "d":
        el = index_elts(n)
        if len(el) == 2:
            r, c = const(el[0]), const(el[1])
            if isinstance(c, int) and (isinstance(r, int) or isinstance(el[0], ast.Slice)):
                return (r if isinstance(r, int) else ":", c)
    return None


def column_subsets(idx):
    ci = idx.cls(O + "::BarycentricCoordinates")
    subs = {}
    for m in ci.methods.values():
        for st in iter_stmts(m.node.body):
            if isinstance(st, ast.Assign):
                for t in st.targets:
                    a = _d_access(t)
                    if a and isinstance(a[0], int):
                        subs.setdefault(a[1], set()).add(a[0])
    return ci, subs


def _guard_columns(idx, ci, name, seen=None):
    seen = seen or set()
    if name in seen or name not in ci.methods:
        return set()
    seen.add(name)
    cols = set()
    m = ci.methods[name]
    for n in ast.walk(m.node):
        a = _d_access(n)
        if a and isinstance(n.ctx, ast.Load):
            cols.add(a[1])
        if isinstance(n, ast.Call) and isinstance(n.func, ast.Attribute) and u(n.func.value) == "self":
            cols |= _guard_columns(idx, ci, n.func.attr, seen)
    return cols


def r_johnson(idx, rep, rule="R-JOHNSON"):
    rep.rule(rule, "backup procedure: every candidate uses the cofactors d[v, c] of its own vertex subset (c derived from the "
                   "stores into d), in vertex-list order, guarded on the same column, accepted under strict `<`, and records "
                   "its vertex list in ordered_indices", floor=25)
    ci, subs = column_subsets(idx)
    if len(subs) < 11:
        raise AnalysisError("BarycentricCoordinates: only %d cofactor columns are ever written" % len(subs))
    found = {}
    for fname, n in (("_backup_procedure_line_segment", 2), ("_backup_procedure_face", 3), ("_backup_procedure_tetrahedron", 4)):
        f = idx.func(O + "::" + fname)
        ps = f.params()
        # normal form of the procedure: private single-exit helpers of this module opened (`_replace_if_closer`-style acceptance helpers, a shared
        # prefix of the face and tetrahedron procedures), literal loops unrolled, straight-line methods (Solution.from_vertex) opened
        opened = inline_single_exit_helpers(idx, f.module, f.node, only=lambda c: getattr(c, "module", None) is f.module and c.name.startswith("_"), depth=3)
        # parameter roles by use, not by position: the cofactor table is the parameter read as P.d[...], the running solution the parameter whose
        # from_vertex is called (or whose .distance_squared bounds the comparisons), the simplex the parameter read as P.dot_product_table
        txt = u(opened)
        simplex = next((p_ for p_ in ps if re.search(r"\b%s\.dot_product_table\b" % re.escape(p_), txt)), ps[0])
        dname = next((p_ for p_ in ps if re.search(r"\b%s\.d\[" % re.escape(p_), txt)), ps[2])
        sol = next((p_ for p_ in ps if re.search(r"\b%s\.from_vertex\(" % re.escape(p_), txt) or re.search(r"< %s\.distance_squared\b" % re.escape(p_), txt)), ps[3])
        cands = set()
        # local names, derived from the shape of the function: `return OI[:N]`
        OI, NP = "ordered_indices", "n_simplex_points"
        for r_ in iter_stmts(f.node.body):
            if isinstance(r_, ast.Return) and isinstance(r_.value, ast.Subscript) and isinstance(r_.value.slice, ast.Slice) and isinstance(r_.value.value, ast.Name):
                OI = r_.value.value.id
                NP = u(r_.value.slice.upper)
        # vertex candidates are judged by their EFFECTS on the normal form of the body (helpers, straight-line methods such as
        # Solution.from_vertex and literal loops expanded): however the code is organised, adopting vertex v must leave
        # coords[0] = 1, search_direction = points[v], distance_squared = <v, v>, ordered_indices[0] = v, n_simplex_points = 1
        ns = normalise_statements(idx, f.module, opened.body)
        ns_keep = normalise_statements(idx, f.module, opened.body, keep=("from_line_segment", "from_face", "from_tetrahedron", "copy_from"))
        # names that carry the simplex size in and out of opened helpers (`n__i3 = n_simplex_points` ... `n_simplex_points = n__i3`) are one variable
        np_class = {NP}
        grew = True
        copies = [(s_.targets[0].id, s_.value.id) for b_ in ns for s_ in ast.walk(b_) if isinstance(s_, ast.Assign) and len(s_.targets) == 1
                  and isinstance(s_.targets[0], ast.Name) and isinstance(s_.value, ast.Name)]
        while grew:
            grew = False
            for a_, b_ in copies:
                if (a_ in np_class) != (b_ in np_class) and ("__i" in a_ or "__i" in b_):
                    np_class |= {a_, b_}
                    grew = True

        def vertex_effects(block, v, env):
            env = dict(env)
            got = {}
            for s_ in block:
                if isinstance(s_, ast.Assign) and len(s_.targets) == 1:
                    t, val = s_.targets[0], s_.value
                    if isinstance(val, ast.Name) and val.id in env:
                        val = env[val.id]
                    if isinstance(t, ast.Name):
                        env[t.id] = val
                    k_ = NP if isinstance(t, ast.Name) and t.id in np_class else u(t)
                    got[k_] = u(val).replace(" ", "")
            want = {sol + ".barycentric_coordinates[0]": ("1.0", "1"), sol + ".search_direction": ("%s.points[%s]" % (simplex, v),),
                    sol + ".distance_squared": ("%s.dot_product_table[%s,%s]" % (simplex, v, v),), OI + "[0]": (str(v),), NP: ("1",)}
            return [k for k, vals in want.items() if got.get(k) not in vals], got
        top_env = {}
        top_plain = [s_ for s_ in ns if not isinstance(s_, (ast.If, ast.For, ast.While))]
        missing0, _ = vertex_effects(top_plain, 0, {})
        ok = not missing0
        rep.check(ok, rule, f.key + "|(0,) initial", f.where, "the procedure must start from vertex 0 (coords[0] = 1, its point, its squared norm, ordered_indices[0] = 0, "
                                                             "n_simplex_points = 1); not established: %s" % missing0)
        if ok:
            cands.add((0,))
        env_run = {}
        for s_ in ns:
            if isinstance(s_, ast.Assign) and len(s_.targets) == 1 and isinstance(s_.targets[0], ast.Name):
                env_run[s_.targets[0].id] = s_.value
                continue
            if not isinstance(s_, ast.If):
                continue
            t_ = s_.test
            if isinstance(t_, ast.Name) and t_.id in env_run:
                t_ = env_run[t_.id]
            if ncmp(t_) is None:
                continue
            op, a_, b_ = ncmp(t_)
            if isinstance(a_, ast.Name) and a_.id in env_run:
                a_ = env_run[a_.id]
            mm = re.fullmatch(r"%s\.dot_product_table\[(\d), (\d)\]" % re.escape(simplex), u(a_))
            if not mm or u(b_) != sol + ".distance_squared":
                continue
            diag = (int(mm.group(1)), int(mm.group(2)))
            v = diag[0]
            # the candidate is named by the vertex most of its parts agree on (test, recorded index, point, squared norm)
            votes = [diag[0]]
            for x in s_.body:
                if isinstance(x, ast.Assign) and len(x.targets) == 1:
                    val = env_run.get(x.value.id, x.value) if isinstance(x.value, ast.Name) else x.value
                    if u(x.targets[0]) == OI + "[0]" and isinstance(const(val), int):
                        votes.append(const(val))
                    m2 = re.fullmatch(r"%s\.points\[(\d)\]" % re.escape(simplex), u(val)) if u(x.targets[0]) == sol + ".search_direction" else None
                    m3 = re.fullmatch(r"%s\.dot_product_table\[(\d), \1\]" % re.escape(simplex), u(val)) if u(x.targets[0]) == sol + ".distance_squared" else None
                    for m_ in (m2, m3):
                        if m_:
                            votes.append(int(m_.group(1)))
            v = max(sorted(set(votes)), key=votes.count)
            where = "%s:%d" % (f.module.relpath, s_.lineno)
            key = "%s|(%s,)" % (fname, v)
            cands.add((v,))
            rep.check(op == "<" and diag == (v, v), rule, key + " strict acceptance", where,
                      "vertex %s must be accepted under dot_product_table[%s, %s] < solution.distance_squared (found `%s`)" % (v, v, v, u(t_)))
            missing, got = vertex_effects(s_.body, v, env_run)
            rep.check(not missing, rule, key + " records its vertices", where,
                      "adopting vertex %s must set coords[0] = 1.0, search_direction = points[%s], distance_squared = <%s, %s>, ordered_indices[0] = %s and "
                      "n_simplex_points = 1; not established on this path: %s (a weight left over from a previously accepted segment / face scales the "
                      "closest points although the distance is right)" % (v, v, v, v, v, missing))
        locs = {st.targets[0].id: st.value for st in ns_keep if isinstance(st, ast.Assign) and isinstance(st.targets[0], ast.Name)}
        for st in ns_keep:
            if not isinstance(st, ast.If):
                continue
            where = "%s:%d" % (f.module.relpath, st.lineno)
            test = locs.get(st.test.id, st.test) if isinstance(st.test, ast.Name) else st.test
            fl = [c for c in calls(st.body) if isinstance(c.func, ast.Attribute) and c.func.attr in ("from_line_segment", "from_face", "from_tetrahedron")]
            if fl:
                c = fl[0]
                kind = c.func.attr
                # literal vertex lists held in a local (`vi = [0, 1]`, a helper's parameter) are read through: last store before the use, same block
                lists = {}
                for s_ in st.body:
                    if isinstance(s_, ast.Assign) and len(s_.targets) == 1 and isinstance(s_.targets[0], ast.Name):
                        v_ = lists.get(s_.value.id) if isinstance(s_.value, ast.Name) else s_.value
                        if isinstance(v_, (ast.List, ast.Tuple)):
                            lists[s_.targets[0].id] = v_
                        else:
                            lists.pop(s_.targets[0].id, None)
                    if any(x is c for x in ast.walk(s_)):
                        break
                lists_at_call = dict(lists)

                def rd(e, env_):
                    return env_.get(e.id, e) if isinstance(e, ast.Name) else e
                if len(c.args) > 1:
                    c = copy.copy(c)
                    c.args = [c.args[0], rd(c.args[1], lists_at_call)] + list(c.args[2:])
                if kind == "from_tetrahedron":
                    vlist = [0, 1, 2, 3]
                    a = _d_access(c.args[1]) if len(c.args) > 1 else None
                    cols = {a[1]} if a else set()
                    order_ok = a is not None and a[0] == ":"
                    weights = [(v, a[1]) for v in vlist] if a else []
                else:
                    vlist = [const(e) for e in c.args[1].elts] if isinstance(c.args[1], (ast.List, ast.Tuple)) else None
                    weights = [_d_access(w) for w in c.args[2:]]
                    if vlist is None or any(w is None for w in weights):
                        rep.bad(rule, "%s|%s" % (f.key, u(c)), where, "candidate call not in the form from_x(simplex, [vertices], d[v, c] ...)")
                        continue
                    cols = {w[1] for w in weights}
                    order_ok = [w[0] for w in weights] == vlist
                key = "%s|%s" % (fname, tuple(sorted(vlist)))
                cands.add(tuple(sorted(vlist)))
                rep.check(len(cols) == 1, rule, key + " one column", where, "weights %s come from different cofactor columns" % [u(w) for w in c.args[2:]])
                col = sorted(cols)[0] if cols else None
                rep.check(col is not None and subs.get(col) == set(vlist), rule, key + " column of its own subset", where,
                          "candidate %s takes its weights from column %s, whose cofactors belong to the subset %s" % (vlist, col, sorted(subs.get(col, []))),
                          "column %s <-> subset %s" % (col, sorted(vlist)))
                rep.check(order_ok, rule, key + " weight order", where,
                          "weights %s are not in the order of the vertex list %s: the barycentric coordinates are attached to the wrong vertices" % (
                              [u(w) for w in c.args[2:]], vlist))
                # guard reads the same column
                g = test
                gcols = set()
                for n_ in ast.walk(g):
                    if isinstance(n_, ast.Call) and isinstance(n_.func, ast.Attribute) and u(n_.func.value) == dname:
                        gcols |= _guard_columns(idx, ci, n_.func.attr)
                rep.check(bool(gcols) and col in gcols and all(subs.get(gc, set()) <= set(vlist) for gc in gcols), rule, key + " guard column", where,
                          "the guard `%s` reads cofactor columns %s, the candidate uses column %s" % (u(g), sorted(gcols), col))
                # acceptance
                inner = [s for s in st.body if isinstance(s, ast.If)]
                acc_ok, oi_ok, n_ok = False, False, False
                if inner:
                    t = inner[0].test
                    if ncmp(t) is not None:
                        op, a_, b_ = ncmp(t)
                        acc_ok = op == "<" and u(a_).endswith(".distance_squared") and u(a_) != u(b_) and u(b_) == sol + ".distance_squared"
                    elif key in TIE_EXCEPTIONS:
                        from ..core.astutil import disjuncts
                        dj = disjuncts(t)
                        first = ncmp(dj[0]) if dj else None
                        dloc = {s_.targets[0].id: s_.value for s_ in st.body if isinstance(s_, ast.Assign) and isinstance(s_.targets[0], ast.Name)}
                        acc_ok = first is not None and first[0] == "<" and isinstance(first[1], ast.Name) and const(first[2]) in (0, 0.0) \
                            and isinstance(dloc.get(first[1].id), ast.BinOp) and isinstance(dloc[first[1].id].op, ast.Sub) \
                            and u(dloc[first[1].id].right) == sol + ".distance_squared"
                    # vertex lists visible at the acceptance (stores of the enclosing block up to it)
                    lists = {}
                    for s_ in st.body:
                        if s_ is inner[0]:
                            break
                        if isinstance(s_, ast.Assign) and len(s_.targets) == 1 and isinstance(s_.targets[0], ast.Name):
                            v_ = lists.get(s_.value.id) if isinstance(s_.value, ast.Name) else s_.value
                            if isinstance(v_, (ast.List, ast.Tuple)):
                                lists[s_.targets[0].id] = v_
                            else:
                                lists.pop(s_.targets[0].id, None)
                    for s in inner[0].body:
                        if isinstance(s, ast.Assign) and u(s.targets[0]).startswith(OI + "["):
                            val = rd(s.value, lists)
                            vals = [const(e) for e in val.elts] if isinstance(val, (ast.Tuple, ast.List)) else [const(val)]
                            oi_ok = vals == vlist
                        if isinstance(s, ast.Assign) and isinstance(s.targets[0], ast.Name) and s.targets[0].id in np_class:
                            val = s.value
                            if isinstance(val, ast.Call) and call_name(val) == "len" and len(val.args) == 1:
                                lv = rd(val.args[0], lists)
                                n_ok = isinstance(lv, (ast.List, ast.Tuple)) and len(lv.elts) == len(vlist)
                            else:
                                n_ok = const(val) == len(vlist)
                rep.check(acc_ok, rule, key + " strict acceptance", where, "candidate %s is not accepted under `solution_d.distance_squared < solution.distance_squared`" % vlist)
                rep.check(oi_ok and n_ok, rule, key + " records its vertices", where,
                          "after accepting candidate %s, ordered_indices / n_simplex_points do not record exactly that vertex list in order" % vlist)
        found[fname] = (n, cands)
        rets = [s for s in iter_stmts(f.node.body) if isinstance(s, ast.Return)]
        rep.check(len(rets) == 1 and u(rets[0].value) == "%s[:%s]" % (OI, NP), rule, f.key + "|returns the recorded subset", f.where,
                  "the procedure must return ordered_indices[:n_simplex_points]")
    rule2 = "R-EXHAUSTIVE"
    rep.rule(rule2, "the backup procedure compares every non-empty sub-simplex: 3 for a segment, 7 for a face, 15 for a tetrahedron", floor=3)
    for fname, (n, cands) in found.items():
        want = {c for k in range(1, n + 1) for c in itertools.combinations(range(n), k)}
        missing = sorted(want - cands)
        rep.check(not missing, rule2, "%s|%d sub-simplices" % (fname, len(want)), idx.func(O + "::" + fname).where,
                  "sub-simplices %s are never compared: the minimum-norm point can be missed" % missing, "%d of %d" % (len(cands & want), len(want)))
    # (d) Solution.from_*: judged on the normal form of the method (private straight-line methods such as a shared `_combine` opened, attribute aliases
    #     already read through by the Index, tuple assignments element-wise, temporaries resolved)
    from ..core.astutil import assign_pairs
    sc = idx.cls(O + "::Solution")
    for mname, k in (("from_line_segment", 2), ("from_face", 3)):
        m = sc.methods.get(mname)
        if m is None:
            raise AnalysisError("Solution.%s vanished" % mname)
        ps = [p for p in m.params() if p != "self"]
        w = ps[2:]
        body = list(iter_stmts(normalise_statements(idx, m.module, strip_docstring(m.node.body), cls=sc)))
        stores, locs, sd = {}, {}, []
        for st in body:
            for t_, v_ in assign_pairs(st):
                if isinstance(t_, ast.Subscript) and u(t_.value) == "self.barycentric_coordinates":
                    stores[const(t_.slice)] = v_
                elif isinstance(t_, ast.Name):
                    locs[t_.id] = v_
                elif u(t_) == "self.search_direction":
                    sd.append(v_)

        def rs(e, depth=0):
            return rs(locs[e.id], depth + 1) if isinstance(e, ast.Name) and e.id in locs and depth < 4 else e
        ok = True
        for i in range(k - 1):
            v = stores.get(i)
            den = rs(v.right) if isinstance(v, ast.BinOp) and isinstance(v.op, ast.Div) else None
            good = den is not None and u(v.left) == w[i] and sorted(n_.id for n_ in ast.walk(den) if isinstance(n_, ast.Name)) == sorted(w)
            ok = ok and good
        last = stores.get(k - 1)
        ok = ok and last is not None and u(last).replace(" ", "").startswith("1.0-")
        good = False
        if sd and dot_args(rs(sd[0])):
            a_, b_ = dot_args(rs(sd[0]))
            a_, b_ = rs(a_), rs(b_)
            good = u(a_) == "self.barycentric_coordinates[:%d]" % k and u(b_) == "%s.points[%s]" % (ps[0], ps[1])
        rep.check(ok and good, rule, sc.key + ".%s|normalised weights applied to the listed vertices" % mname, m.where,
                  "Solution.%s must set coords[i] = w_i / sum(w) in argument order and search_direction = coords[:%d] . points[vertex list]" % (mname, k))
    # Solution.from_vertex: the single weight lives in slot 0 (weights are listed in subset order), the point and its squared norm are vertex vi's
    m = sc.methods.get("from_vertex")
    if m is None:
        raise AnalysisError("Solution.from_vertex vanished")
    ps = [p for p in m.params() if p != "self"]
    body = list(iter_stmts(m.node.body))
    w0 = [st for st in body if isinstance(st, ast.Assign) and isinstance(st.targets[0], ast.Subscript) and u(st.targets[0].value) == "self.barycentric_coordinates"]
    sd = [st for st in body if isinstance(st, ast.Assign) and u(st.targets[0]) == "self.search_direction"]
    ds = [st for st in body if isinstance(st, ast.Assign) and u(st.targets[0]) == "self.distance_squared"]
    ok = len(w0) == 1 and const(w0[0].targets[0].slice) == 0 and const(w0[0].value) in (1, 1.0) \
        and len(sd) == 1 and u(sd[0].value) == "%s.points[%s]" % (ps[0], ps[1]) \
        and len(ds) == 1 and u(ds[0].value).replace(" ", "") == "%s.dot_product_table[%s,%s]" % (ps[0], ps[1], ps[1])
    rep.check(ok, rule, sc.key + ".from_vertex|weight 1 in slot 0, point and squared norm of vertex vi", m.where,
              "Solution.from_vertex must set coords[0] = 1.0 (the weights are listed in the order of the reduced simplex, which has ONE vertex), "
              "search_direction = points[vi] and distance_squared = dot_product_table[vi, vi]; found %s / %s / %s"
              % ([u(x) for x in w0], [u(x.value) for x in sd], [u(x.value) for x in ds]))


def r_parallel(idx, rep, rule="R-PARALLEL"):
    """SimplexInfo keeps three parallel containers (points / indices_polytope1 / indices_polytope2: row k of each describes simplex
    vertex k).  Every method that writes row t of one of them writes row t of all three, from the same source row (or from the
    parameters that belong together)."""
    rep.rule(rule, "SimplexInfo: points, indices_polytope1 and indices_polytope2 are written together — same target row, same source row — "
                   "in every method (a vertex whose coordinates and pre-image indices get out of step yields closest points on the wrong "
                   "vertices)", floor=4)
    ci = idx.cls("distance3d.gjk._gjk_original::SimplexInfo")
    init = ci.methods.get("__init__")
    group = []
    for st in iter_stmts(init.node.body):
        if isinstance(st, ast.Assign) and isinstance(st.targets[0], ast.Attribute) and u(st.targets[0].value) == "self" and isinstance(st.value, ast.Call) \
                and (call_name(st.value) or "").startswith("np.") and st.value.args:
            shape = st.value.args[0]
            first = shape.elts[0] if isinstance(shape, ast.Tuple) else shape
            dims = len(shape.elts) if isinstance(shape, ast.Tuple) else 1
            if const(first) == 4 and not (dims == 2 and const(shape.elts[1]) == 4):
                group.append(st.targets[0].attr)
    if len(group) != 3:
        raise AnalysisError("SimplexInfo.__init__: expected three parallel containers with 4 rows, found %s" % group)
    G = set(group)
    for name, m in sorted(ci.methods.items()):
        if name == "__init__":
            continue
        writes = {}      # target row text -> {attr: source}
        for st in iter_stmts(m.node.body):
            if isinstance(st, ast.Assign) and len(st.targets) == 1 and isinstance(st.targets[0], ast.Subscript) and isinstance(st.targets[0].value, ast.Attribute) \
                    and u(st.targets[0].value.value) == "self" and st.targets[0].value.attr in G:
                t = st.targets[0]
                src = st.value
                if isinstance(src, ast.Subscript) and isinstance(src.value, ast.Attribute):
                    s = ("attr", u(src.value.value), src.value.attr, u(src.slice))
                else:
                    s = ("expr", u(src))
                writes.setdefault(u(t.slice), {})[t.value.attr] = s
        for row, w in sorted(writes.items()):
            key = "%s|row [%s] written in all three containers from one source" % (m.key, row)
            missing = sorted(G - set(w))
            ok = not missing
            why = "only %s is written at row [%s], %s keep the old vertex" % (sorted(w), row, missing)
            if ok:
                kinds = {s[0] for s in w.values()}
                if kinds == {"attr"}:
                    ok = len({(s[1], s[3]) for s in w.values()}) == 1 and all(s[2] == a for a, s in w.items())
                    why = "rows are copied from different sources: %s" % {a: "%s.%s[%s]" % (s[1], s[2], s[3]) for a, s in w.items()}
                elif kinds == {"expr"}:
                    # parameters that belong together: <x>1 -> *1, <x>2 -> *2, the point -> points
                    ok = all((a.endswith("1") and s[1].endswith("1")) or (a.endswith("2") and s[1].endswith("2")) or (not a[-1].isdigit() and not s[1][-1].isdigit())
                             for a, s in w.items())
                    why = "parameters are stored in the wrong containers: %s" % {a: s[1] for a, s in w.items()}
                else:
                    ok = False
                    why = "mixed sources %s" % w
            rep.check(ok, rule, key, m.where, "SimplexInfo.%s: %s" % (name, why), "in step")


def _subalg_nf(idx, f, opened=None):
    """a function of the sub-algorithm module in normal form: private single-exit helpers of the module opened at their call sites (`_reduce_to_vertex(simplex, i)`
    is `simplex.select_vertex(i); ...` again), loops over literal tables unrolled (the loop variables substituted); no method is opened"""
    cache = idx.__dict__.setdefault("_subalg_nf", {})
    if f.key not in cache:
        op = set()
        node = inline_single_exit_helpers(idx, f.module, f.node, only=lambda c: getattr(c, "module", None) is f.module and c.name.startswith("_"), depth=3, opened=op)
        # a TAIL call of a private function with the caller's own names as arguments (`return _second_phase(simplex, d)`: the sub-algorithm split in two) is
        # that function's body: appended in place, whatever its number of exits
        for _ in range(2):
            last = node.body[-1] if node.body else None
            if isinstance(last, ast.Return) and isinstance(last.value, ast.Call) and isinstance(last.value.func, ast.Name) and not last.value.keywords \
                    and all(isinstance(a_, ast.Name) for a_ in last.value.args):
                callee = idx.resolve_call(f.module, last.value, None)
                cn = getattr(callee, "node", None)
                if isinstance(cn, ast.FunctionDef) and getattr(callee, "cls", None) is None and callee.name.startswith("_") and callee.key != f.key \
                        and [a_.arg for a_ in cn.args.args] == [a_.id for a_ in last.value.args]:
                    sub = _subalg_nf(idx, callee, op)
                    op.add(callee.key)
                    node.body = node.body[:-1] + [copy.deepcopy(x) for x in strip_docstring(sub.body)]
                    continue
            break
        # `for i, test in enumerate(TABLE, start=k)` with TABLE a literal tuple (also named first) is the literal loop over ((k, e0), (k + 1, e1), ...)
        local_tuples = {st.targets[0].id: st.value for st in ast.walk(node) if isinstance(st, ast.Assign) and len(st.targets) == 1 and isinstance(st.targets[0], ast.Name)
                        and isinstance(st.value, (ast.Tuple, ast.List))}
        for st in ast.walk(node):
            if isinstance(st, ast.For) and isinstance(st.iter, ast.Call) and call_name(st.iter) == "enumerate" and st.iter.args:
                tab = st.iter.args[0]
                tab = local_tuples.get(tab.id) if isinstance(tab, ast.Name) else tab
                start = 0
                if len(st.iter.args) > 1:
                    start = const(st.iter.args[1])
                for kw in st.iter.keywords:
                    if kw.arg == "start":
                        start = const(kw.value)
                if isinstance(tab, (ast.Tuple, ast.List)) and isinstance(start, int):
                    st.iter = ast.copy_location(ast.Tuple(elts=[ast.copy_location(ast.Tuple(elts=[ast.copy_location(ast.Constant(value=start + k_), st), copy.deepcopy(e_)], ctx=ast.Load()), st)
                                                                 for k_, e_ in enumerate(tab.elts)], ctx=ast.Load()), st.iter)
        ast.fix_missing_locations(node)
        keep = {n.func.attr for n in ast.walk(node) if isinstance(n, ast.Call) and isinstance(n.func, ast.Attribute)}
        node.body = normalise_statements(idx, f.module, node.body, keep=tuple(keep), depth=0)
        cache[f.key] = (node, op)
    if opened is not None:
        opened |= cache[f.key][1]
    return cache[f.key][0]


def r_dottable(idx, rep, rule="R-DOTTABLE"):
    """SimplexInfo.select_vertex / select_line_segment / select_face compact the simplex when the vertices (i, j, k) become rows (0, 1, 2): row r of
    points / indices_polytope1 / indices_polytope2 must hold what row P_r held, and entry [r, c] (r >= c) of the lower-triangular table of inner
    products must hold what entry [max(P_r, P_c), min(P_r, P_c)] held.  Decided by running each method — by interpretation of its syntax tree over
    concrete indices and LABELLED cells (core/concrete.py) — for every index tuple that occurs at a call site of the module, so helpers (`_dot_product(i, j)`), selectors written as conditional expressions, if statements or max/min, and local
    aliases of the table all give the same verdict; reads of the (unmaintained) upper triangle and reads after an in-place overwrite show up as
    a wrong label."""
    import itertools as _it
    from ..core.concrete import Interp as _CI, NotModelled as _NM
    rep.rule(rule, "SimplexInfo.select_*: for every selection made at a call site (literal index tuples), row r of the parallel containers receives row P_r and "
                   "dot_product_table[r, c] (r >= c) receives the old [max(P_r, P_c), min(P_r, P_c)] — interpretation over concrete indices and labelled cells",
             floor=8)
    ci = idx.cls("distance3d.gjk._gjk_original::SimplexInfo")
    for name, k in (("select_vertex", 1), ("select_line_segment", 2), ("select_face", 3)):
        m = ci.methods.get(name)
        if m is None:
            raise AnalysisError("SimplexInfo.%s vanished" % name)
        # the selections that the sub-algorithm really makes: the literal index tuples at the call sites of the module (they are not all ascending:
        # select_face(0, 3, 2), select_line_segment(2, 1) ...); a call with a non-literal index is reported as not decided
        sels = set()
        opened_ = set()
        nfs = [(g_, _subalg_nf(idx, g_, opened_)) for g_ in idx.module(O).functions.values() if g_.cls is None] + \
              [(g_, g_.node) for g_ in idx.module(O).functions.values() if g_.cls is not None]
        for g_, gnode in nfs:
            for c_ in calls(gnode):
                if isinstance(c_.func, ast.Attribute) and c_.func.attr == name and g_.key != m.key:
                    vals = [const(a_) for a_ in c_.args]
                    if len(vals) == k and all(isinstance(v_, int) and not isinstance(v_, bool) for v_ in vals):
                        sels.add(tuple(vals))
                    elif g_.key in opened_:
                        continue          # a private helper that forwards its parameters: its call sites were opened and are enumerated there
                    else:
                        rep.unknown(rule, "%s|call %s" % (m.key, u(c_)[:60]), "%s:%d" % (g_.module.relpath, c_.lineno), "selection with non-literal indices: not enumerated")
        if not sels:
            raise AnalysisError("SimplexInfo.%s is never called with literal indices" % name)
        for sel in sorted(sels):
            it = _CI(ci)
            key0 = "%s|select%s" % (m.key, sel)
            try:
                it.call_method(name, list(sel))
            except _NM as e:
                rep.unknown(rule, key0 + " interpretation", m.where, "SimplexInfo.%s%s is not interpretable: %s" % (name, sel, e))
                continue
            cells = it.cells
            n_pts = cells.scalars.get("n_simplex_points")
            bad = []
            if n_pts != k:
                bad.append("n_simplex_points is %r, not %d" % (n_pts, k))
            for r in range(k):
                for attr in ("points", "indices_polytope1", "indices_polytope2"):
                    got = cells.load(attr, (r,))
                    if got != (attr, sel[r]):
                        bad.append("%s[%d] holds the old %s (vertex %d must move there)" % (attr, r, "%s[%s]" % (got[0], ", ".join(map(str, got[1:]))), sel[r]))
                for c_ in range(r + 1):
                    got = cells.load("dot_product_table", (r, c_))
                    want = ("dot_product_table", max(sel[r], sel[c_]), min(sel[r], sel[c_]))
                    if got != want:
                        note = " (an entry of the unmaintained upper triangle)" if len(got) == 3 and isinstance(got[1], int) and got[1] < got[2] else ""
                        bad.append("dot_product_table[%d, %d] holds the old [%s]%s; it must hold the old [%d, %d] = <y_%d, y_%d>"
                                   % (r, c_, ", ".join(map(str, got[1:])), note, want[1], want[2], sel[r], sel[c_]))
            rep.check(not bad, rule, key0, m.where,
                      "SimplexInfo.%s%s: %s (stale or transposed inner products make the sub-algorithm pick the wrong feature; a vertex whose coordinates and "
                      "pre-image indices get out of step yields closest points on the wrong vertices)" % (name, sel, "; ".join(bad[:3])), "rows and table entries in place")


def r_cofactorsign(idx, rep, rule="R-COFACTORSIGN"):
    """Johnson's sub-algorithm decides every Voronoi region from the SIGNS of cofactors d[i, j]: a vertex takes part iff its cofactor is > 0,
    and 0 always falls on the 'not inside' side.  Throughout BarycentricCoordinates the comparisons are therefore `d > c` or its exact complement
    `d <= c` (`not d > c`); a `d < c` / `d >= c` treats the boundary value the other way round and leaves exactly-degenerate simplices (integer
    coordinates, symmetric placements) without any accepting region."""
    rep.rule(rule, "BarycentricCoordinates: every comparison of a cofactor d[i, j] with a threshold is `d > c` or `d <= c` (the complementary pair), "
                   "so that the boundary value belongs to the same side in every region predicate", floor=15)
    ci = idx.cls(O + "::BarycentricCoordinates")
    for name, m in sorted(ci.methods.items()):
        n = 0
        bad = None
        for c in ast.walk(m.node):
            if isinstance(c, ast.Compare) and len(c.ops) == 1:
                t = ncmp(c)
                if t is None:
                    continue

                def is_d(e):
                    return isinstance(e, ast.Subscript) and u(e.value) == "self.d"
                if is_d(t[1]) == is_d(t[2]):
                    continue
                n += 1
                op, a, b = t
                ok = (op == "<" and is_d(b)) or (op == "<=" and is_d(a))      # c < d  (d > c)   or   d <= c
                if not ok and bad is None:
                    bad = c
        if n == 0:
            continue
        rep.check(bad is None, rule, "%s|cofactor comparisons are `> c` / `<= c`" % m.key, "%s:%d" % (m.module.relpath, (bad.lineno if bad else m.node.lineno)),
                  "`%s` treats a cofactor that is exactly on the threshold differently from every other region predicate (which use `d > c` / `not d > c`): for exactly "
                  "degenerate simplices no region accepts, the fast path raises and GJK stops early on a non-optimal simplex" % (u(bad) if bad else ""), "%d comparisons" % n)


# ---------------------------------------------------------------------------------------------------------------------------------
# R-JOHNSONREC: the cofactor recursion of Johnson's sub-algorithm.
#
#   Delta_j(X u {j}) = sum over i in X of  Delta_i(X) * (y_i . y_k  -  y_i . y_j)        (k any fixed element of X)
#
# d[v, c] holds Delta_v(S(c)), S(c) = the bits of c + 1 (vertex v alone is column 2^v - 1: checked against __init__).  Every store into d is
# resolved to this form: each product pairs d[i, col(X)] with a factor that RESOLVES (through local definitions, negations, parameters bound at
# every call site, tuple results of the other coordinate methods) to y_i . (y_k - y_j) with the store's own j, the term's own i and one common k.

def _table_entry(n, simplex_names):
    """<simplex>.dot_product_table[a, b] -> frozenset({a, b})"""
    if isinstance(n, ast.Subscript) and ((isinstance(n.value, ast.Attribute) and n.value.attr == "dot_product_table")
                                         or (isinstance(n.value, ast.Name) and simplex_names and n.value.id in simplex_names)):
        el = index_elts(n)
        if len(el) == 2 and isinstance(const(el[0]), int) and isinstance(const(el[1]), int):
            return (const(el[0]), const(el[1]))
    return None


class _JohnsonSem:
    """meaning of a factor: ('e', i, k, j) = y_i . (y_k - y_j)   |   None"""

    def __init__(self, idx, ci):
        self.idx, self.ci = idx, ci
        self.ret_memo = {}
        self.param_memo = {}
        self.problems = []
        self.all_funcs = [f for f in idx.module(O).functions.values()]

    def table_aliases(self, f):
        """locals that only ever name the table: every store is `<x>.dot_product_table`"""
        if f is None:
            return set()
        out = {}
        for n in ast.walk(f.node):
            if isinstance(n, ast.Name) and isinstance(n.ctx, ast.Store):
                out.setdefault(n.id, [])
        for st in iter_stmts(f.node.body):
            if isinstance(st, ast.Assign) and len(st.targets) == 1 and isinstance(st.targets[0], ast.Name):
                out[st.targets[0].id].append(st.value)
        n_stores = {}
        for n in ast.walk(f.node):
            if isinstance(n, ast.Name) and isinstance(n.ctx, ast.Store):
                n_stores[n.id] = n_stores.get(n.id, 0) + 1
        return {k for k, vs in out.items() if vs and len(vs) == n_stores.get(k) and all(isinstance(v, ast.Attribute) and v.attr == "dot_product_table" for v in vs)}

    def diff(self, e, f=None):
        if isinstance(e, ast.BinOp) and isinstance(e.op, ast.Sub):
            al = self.table_aliases(f)
            a, b = _table_entry(e.left, al), _table_entry(e.right, al)
            if a is None or b is None:
                return None
            A, B = set(a), set(b)
            common = A & B
            if len(common) != 1:
                return None
            i = next(iter(common))
            k = i if len(A) == 1 else next(iter(A - {i}))
            j = i if len(B) == 1 else next(iter(B - {i}))
            return ("e", i, k, j)
        return None

    def neg(self, t):
        return None if t is None else ("e", t[1], t[3], t[2])

    def local_defs(self, f):
        out = {}
        for st in iter_stmts(f.node.body):
            if isinstance(st, ast.Assign):
                for t in st.targets:
                    if isinstance(t, ast.Name):
                        out.setdefault(t.id, []).append(st.value)
                    elif isinstance(t, ast.Tuple) and all(isinstance(x, ast.Name) for x in t.elts):
                        for pos, x in enumerate(t.elts):
                            out.setdefault(x.id, []).append((st.value, pos))
        return out

    def returns_of(self, f):
        """tuple of meanings returned by a coordinate method"""
        if f.key in self.ret_memo:
            return self.ret_memo[f.key]
        self.ret_memo[f.key] = None
        rets = [st for st in iter_stmts(f.node.body) if isinstance(st, ast.Return) and st.value is not None]
        out = None
        if len(rets) == 1:
            elts = rets[0].value.elts if isinstance(rets[0].value, ast.Tuple) else [rets[0].value]
            out = tuple(self.meaning(x, f) for x in elts)
        self.ret_memo[f.key] = out
        return out

    def param_meaning(self, f, pname):
        key = (f.key, pname)
        if key in self.param_memo:
            return self.param_memo[key]
        self.param_memo[key] = None
        pos = f.params().index(pname) - (1 if f.params() and f.params()[0] == "self" else 0)
        vals = set()
        n_sites = 0
        for g in self.all_funcs:
            for c in ast.walk(g.node):
                if isinstance(c, ast.Call) and isinstance(c.func, ast.Attribute) and c.func.attr == f.name and pos < len(c.args):
                    n_sites += 1
                    vals.add(self.meaning(c.args[pos], g))
        out = next(iter(vals)) if len(vals) == 1 and n_sites else None
        if len(vals) > 1:
            self.problems.append("%s: parameter %s receives different quantities at its call sites: %s" % (f.key, pname, sorted(map(str, vals))))
        self.param_memo[key] = out
        return out

    def meaning(self, e, f, depth=0):
        if depth > 6:
            return None
        if isinstance(e, ast.UnaryOp) and isinstance(e.op, ast.USub):
            return self.neg(self.meaning(e.operand, f, depth + 1))
        d_ = self.diff(e, f)
        if d_ is not None:
            return d_
        a = _d_access(e)
        if a is not None and isinstance(a[0], int):
            S = _subset(a[1])
            if len(S) == 2 and a[0] in S:
                j = a[0]
                i = next(iter(S - {j}))
                return ("e", i, i, j)          # Delta_j({i, j}) = y_i . (y_i - y_j)
            return None
        if isinstance(e, ast.Name):
            if e.id in f.params():
                return self.param_meaning(f, e.id)
            defs = self.local_defs(f).get(e.id, [])
            vals = set()
            for dv in defs:
                if isinstance(dv, tuple):
                    call, pos = dv
                    callee = self._callee(call)
                    r = self.returns_of(callee) if callee is not None else None
                    vals.add(r[pos] if r is not None and pos < len(r) else None)
                elif isinstance(dv, ast.Call):
                    callee = self._callee(dv)
                    r = self.returns_of(callee) if callee is not None else None
                    vals.add(r[0] if r is not None and len(r) == 1 else None)
                else:
                    vals.add(self.meaning(dv, f, depth + 1))
            return next(iter(vals)) if len(vals) == 1 else None
        return None

    def _callee(self, call):
        if isinstance(call, ast.Call) and isinstance(call.func, ast.Attribute) and call.func.attr in self.ci.methods:
            return self.ci.methods[call.func.attr]
        return None


_LAYOUT = {}


def _load_layout(idx):
    """column -> vertex set: single vertices from __init__ (d[v, c] = 1.0), larger sets from the class's own documentation table
    (`* 11: face 0-1-3`), cross-checked against the rows that are ever stored into each column"""
    import re as _re
    ci = idx.cls(O + "::BarycentricCoordinates")
    lay = {}
    init = ci.methods.get("__init__")
    for st in iter_stmts(init.node.body):
        if isinstance(st, ast.Assign):
            a = _d_access(st.targets[0])
            if a and isinstance(a[0], int) and const(st.value) in (1, 1.0):
                lay[a[1]] = {a[0]}
    doc = ast.get_docstring(ci.node) or ""
    for m in _re.finditer(r"\*\s*(\d+):\s*(?:line segment|face|tetrahedron)\s+([0-9](?:-[0-9])+)", doc):
        lay[int(m.group(1))] = {int(x) for x in m.group(2).split("-")}
    _, stored = column_subsets(idx)
    if len(lay) != 15 or sorted(map(len, lay.values())) != [1] * 4 + [2] * 6 + [3] * 4 + [4]:
        raise AnalysisError("BarycentricCoordinates: column layout not recovered from __init__ + class documentation (%s)" % lay)
    _LAYOUT.clear()
    _LAYOUT.update({c: frozenset(v) for c, v in lay.items()})
    return stored


def _subset(col):
    return set(_LAYOUT.get(col, ()))


def _col_of(S):
    for c, v in _LAYOUT.items():
        if v == frozenset(S):
            return c
    return None


def r_johnsonrec(idx, rep, rule="R-JOHNSONREC"):
    rep.rule(rule, "every cofactor stored into BarycentricCoordinates.d follows Johnson's recursion Delta_j(X+j) = sum_{i in X} Delta_i(X) * y_i.(y_k - y_j): "
                   "each product pairs d[i, col(X)] with a factor that resolves (local definitions, negation, parameters bound at every call site, results "
                   "of the other coordinate methods) to y_i.(y_k - y_j) for the store's j, the term's i and one common k in X", floor=30)
    ci = idx.cls(O + "::BarycentricCoordinates")
    _load_layout(idx)
    sem = _JohnsonSem(idx, ci)

    def terms(e):
        if isinstance(e, ast.BinOp) and isinstance(e.op, ast.Add):
            return terms(e.left) + terms(e.right)
        return [e]
    seen = set()
    for mname, m in sorted(ci.methods.items()):
        if mname == "__init__":
            continue
        for st in iter_stmts(m.node.body):
            if not (isinstance(st, ast.Assign) and len(st.targets) == 1):
                continue
            a = _d_access(st.targets[0])
            if a is None or not isinstance(a[0], int):
                continue
            j, c = a
            S = _subset(c)
            where = "%s:%d" % (m.module.relpath, st.lineno)
            key = "%s|d[%d, %d] = Delta_%d(%s)" % (m.key, j, c, j, sorted(S))
            if key in seen:
                key += " #%d" % st.lineno
            seen.add(key)
            if j not in S or len(S) < 2:
                rep.bad(rule, key, where, "`%s` stores a cofactor of vertex %d in column %d, which belongs to the vertex set %s" % (u(st)[:70], j, c, sorted(S)))
                continue
            X = S - {j}
            if len(S) == 2:
                t = sem.diff(st.value, m)
                i = next(iter(X))
                rep.check(t == ("e", i, i, j), rule, key, where,
                          "`%s`: Delta_%d({%d, %d}) must be y_%d.y_%d - y_%d.y_%d (dot_product_table[%d, %d] - dot_product_table[%d, %d]); found %s"
                          % (u(st)[:90], j, i, j, i, i, i, j, i, i, max(i, j), min(i, j), "y_%d.(y_%d - y_%d)" % t[1:] if t else "an expression that is not a difference of two table entries sharing one vertex"),
                          "y_%d.(y_%d - y_%d)" % (i, i, j))
                continue
            want_col = _col_of(X)
            used_i, ks, why = [], set(), None
            for tm in terms(st.value):
                if not (isinstance(tm, ast.BinOp) and isinstance(tm.op, ast.Mult)):
                    why = "term `%s` is not a product" % u(tm)[:50]
                    break
                fac = None
                for x, y in ((tm.left, tm.right), (tm.right, tm.left)):
                    ax = _d_access(x)
                    if ax is not None and isinstance(ax[0], int) and ax[1] == want_col and ax[0] in X:
                        fac = (ax[0], y)
                        break
                if fac is None:
                    why = "term `%s` has no factor d[i, %d] with i in %s (the cofactors of the smaller set %s live in column %d)" % (u(tm)[:50], want_col, sorted(X), sorted(X), want_col)
                    break
                i, other = fac
                t = sem.meaning(other, m)
                if t is None:
                    why = "factor `%s` of term `%s` does not resolve to a difference y_i.(y_k - y_j) of table entries" % (u(other)[:40], u(tm)[:50])
                    break
                if t[1] != i or t[3] != j or t[2] not in X:
                    why = "term `%s`: the factor `%s` is y_%d.(y_%d - y_%d) but the term needs y_%d.(y_k - y_%d) with k in %s" % (u(tm)[:50], u(other)[:30], t[1], t[2], t[3], i, j, sorted(X))
                    break
                used_i.append(i)
                ks.add(t[2])
            if why is None and sorted(used_i) != sorted(X):
                why = "the sum runs over i = %s, it must run over every vertex of %s exactly once" % (sorted(used_i), sorted(X))
            if why is None and len(ks) != 1:
                why = "the terms use different reference vertices k = %s (one fixed k for the whole sum)" % sorted(ks)
            rep.check(why is None, rule, key, where,
                      "`%s` is not Johnson's recursion for Delta_%d(%s): %s — the barycentric weights of this sub-simplex (and every larger one built on it) are wrong, "
                      "so the solver can accept a sub-simplex that does not contain the minimum-norm point" % (u(st)[:100], j, sorted(S), why), "sum over %s, k = %s" % (sorted(X), sorted(ks)))
    for pr in sem.problems:
        rep.bad(rule, "distance3d.gjk._gjk_original::BarycentricCoordinates|" + pr[:120], ci.methods["__init__"].where, pr)


# ---------------------------------------------------------------------------------------------------------------------------------
# R-JOHNSONOPT: the optimality test in front of each sub-simplex of the main sub-algorithm is Johnson's condition
#     S is optimal  <=>  Delta_i(S) > 0 for every i in S (|S| >= 2)   and   Delta_j(S + j) <= 0 for every other vertex j of the simplex.

def _literals(e, ci, pol=True, depth=0):
    """conjunction of literals ('pos' | 'nonpos', row, col) of a boolean method body; None when it is not a pure conjunction of such tests"""
    if depth > 8:
        return None
    if isinstance(e, ast.UnaryOp) and isinstance(e.op, ast.Not):
        return _literals(e.operand, ci, not pol, depth + 1)
    if isinstance(e, ast.BoolOp):
        conj = (isinstance(e.op, ast.And) and pol) or (isinstance(e.op, ast.Or) and not pol)
        if not conj:
            return None
        out = set()
        for v in e.values:
            r = _literals(v, ci, pol, depth + 1)
            if r is None:
                return None
            out |= r
        return out
    if isinstance(e, ast.Call) and isinstance(e.func, ast.Attribute) and e.func.attr in ci.methods and not e.args:
        m = ci.methods[e.func.attr]
        rets = [st for st in iter_stmts(m.node.body) if isinstance(st, ast.Return) and st.value is not None]
        if len(rets) != 1:
            return None
        return _literals(rets[0].value, ci, pol, depth + 1)
    n = ncmp(e)
    if n is not None:
        op, a, b = n                      # a < b  or  a <= b
        for x, y, flipped in ((a, b, False), (b, a, True)):
            acc = _d_access(x)
            if acc is not None and isinstance(acc[0], int) and (const(y) in (0, 0.0) or (isinstance(y, ast.Name) and y.id.isupper())):
                # not flipped:  d <(=) 0 ; flipped:  0 <(=) d
                if not flipped:
                    kind = "nonpos" if op == "<=" else "neg"
                else:
                    kind = "pos" if op == "<" else "nonneg"
                if not pol:
                    kind = {"nonpos": "pos", "pos": "nonpos", "neg": "nonneg", "nonneg": "neg"}[kind]
                if kind in ("neg", "nonneg"):
                    return None            # Johnson's conditions are `> 0` and `<= 0` (R-COFACTORSIGN reports the comparison itself)
                return {(kind, acc[0], acc[1])}
    return None


def r_johnsonopt(idx, rep, rule="R-JOHNSONOPT"):
    rep.rule(rule, "main sub-algorithm of the original GJK: the test in front of every sub-simplex S of an n-point simplex is exactly Johnson's optimality condition — "
                   "d[i, col(S)] > 0 for all i in S and d[j, col(S + j)] <= 0 for all other j < n — after expanding the predicate methods into literals", floor=20)
    _load_layout(idx)
    ci = idx.cls(O + "::BarycentricCoordinates")
    for fname, n in (("_distance_subalgorithm_line_segment", 2), ("_distance_subalgorithm_face", 3), ("_distance_subalgorithm_tetrahedron", 4)):
        f = idx.func(O + "::" + fname)
        dname = f.params()[1]
        for st in _subalg_nf(idx, f).body:
            if not (isinstance(st, ast.If) and isinstance(st.test, ast.Call) and isinstance(st.test.func, ast.Attribute) and u(st.test.func.value) == dname):
                continue
            sel = [c for c in calls(st.body) if isinstance(c.func, ast.Attribute) and c.func.attr.startswith("select_")]
            if sel:
                S = {const(a) for a in sel[0].args}
            elif any(isinstance(c.func, ast.Attribute) and c.func.attr in ("from_tetrahedron", "from_face") for c in calls(st.body)):
                S = set(range(n))
            else:
                continue
            where = "%s:%d" % (f.module.relpath, st.lineno)
            key = "%s|%s guards sub-simplex %s" % (f.key, st.test.func.attr, sorted(S))
            if None in S or not S <= set(range(n)):
                rep.unknown(rule, key, where, "selected vertices not constant")
                continue
            lits = _literals(st.test, ci)
            if lits is None:
                rep.unknown(rule, key, where, "predicate `%s` is not a pure conjunction of `d[r, c] > 0` / `d[r, c] <= 0` tests" % st.test.func.attr)
                continue
            want = set()
            if len(S) >= 2:
                want |= {("pos", i, _col_of(S)) for i in S}
            want |= {("nonpos", j, _col_of(S | {j})) for j in set(range(n)) - S}
            missing, extra = want - lits, lits - want

            def show(xs):
                return sorted("d[%d, %d] %s" % (r, c, "> 0" if k == "pos" else "<= 0") for k, r, c in xs)
            rep.check(not missing and not extra, rule, key, where,
                      "the test in front of sub-simplex %s of a %d-point simplex expands to %s; Johnson's condition is %s%s%s: the solver %s" % (
                          sorted(S), n, show(lits), show(want), ("; missing " + str(show(missing))) if missing else "", ("; not part of it " + str(show(extra))) if extra else "",
                          "accepts a sub-simplex that does not contain the point of minimum norm" if missing else "rejects the optimal sub-simplex and falls through to another one"),
                      "%d literals" % len(want))
