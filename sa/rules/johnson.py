"""R-JOHNSON / R-EXHAUSTIVE — the backup procedure of the original GJK (C18, C09).

(a) the column -> vertex-subset table of the cofactor array d[vertex, case] is DERIVED from the stores found in
    BarycentricCoordinates (which rows of d[:, c] are ever written);
(b) every candidate block of _backup_procedure_{line_segment,face,tetrahedron} uses the cofactors of its own subset, in
    the order of its vertex list, guarded by a predicate reading the same column, accepted under a strict `<`, and
    records exactly its vertex list in ordered_indices;
(c) the blocks enumerate every non-empty sub-simplex (3 / 7 / 15);
(d) Solution.from_* normalise the weights and apply them to the listed vertices in order.
"""
import ast
import itertools

from ..core.astutil import u, call_name, calls, iter_stmts, const, index_elts, ncmp, dot_args
from ..core.index import AnalysisError

O = "distance3d.gjk._gjk_original"
# the one documented tie rule: face 1-2-3 may replace an equally good interior solution
TIE_EXCEPTIONS = {"_backup_procedure_tetrahedron|(1, 2, 3)": "documented tie rule of the original Fortran code: the last face wins a tie against the 4-point solution"}


def _d_access(n):
    """self.d[r, c] / d.d[r, c] -> (r, c) constants else None"""
    if isinstance(n, ast.Subscript) and isinstance(n.value, ast.Attribute) and n.value.attr == "d":
        el = index_elts(n)
        if len(el) == 2:
            r, c = const(el[0]), const(el[1])
            if isinstance(c, int) and (isinstance(r, int) or isinstance(el[0], ast.Slice)):
                return (r if isinstance(r, int) else ":", c)
    return None


def column_subsets(idx):
    ci = idx.cls(O + "::BarycentricCoordinates")
    subs = {}
    for m in ci.methods.values():
        for st in iter_stmts(m.node.body):
            if isinstance(st, ast.Assign):
                for t in st.targets:
                    a = _d_access(t)
                    if a and isinstance(a[0], int):
                        subs.setdefault(a[1], set()).add(a[0])
    return ci, subs


def _guard_columns(idx, ci, name, seen=None):
    seen = seen or set()
    if name in seen or name not in ci.methods:
        return set()
    seen.add(name)
    cols = set()
    m = ci.methods[name]
    for n in ast.walk(m.node):
        a = _d_access(n)
        if a and isinstance(n.ctx, ast.Load):
            cols.add(a[1])
        if isinstance(n, ast.Call) and isinstance(n.func, ast.Attribute) and u(n.func.value) == "self":
            cols |= _guard_columns(idx, ci, n.func.attr, seen)
    return cols


def r_johnson(idx, rep, rule="R-JOHNSON"):
    rep.rule(rule, "backup procedure: every candidate uses the cofactors d[v, c] of its own vertex subset (c derived from the "
                   "stores into d), in vertex-list order, guarded on the same column, accepted under strict `<`, and records "
                   "its vertex list in ordered_indices", floor=25)
    ci, subs = column_subsets(idx)
    if len(subs) < 11:
        raise AnalysisError("BarycentricCoordinates: only %d cofactor columns are ever written" % len(subs))
    found = {}
    for fname, n in (("_backup_procedure_line_segment", 2), ("_backup_procedure_face", 3), ("_backup_procedure_tetrahedron", 4)):
        f = idx.func(O + "::" + fname)
        ps = f.params()
        simplex, dname, sol = ps[0], ps[2], ps[3]
        cands = set()
        # local names, derived from the shape of the function: `return OI[:N]`
        OI, NP = "ordered_indices", "n_simplex_points"
        for r_ in iter_stmts(f.node.body):
            if isinstance(r_, ast.Return) and isinstance(r_.value, ast.Subscript) and isinstance(r_.value.slice, ast.Slice) and isinstance(r_.value.value, ast.Name):
                OI = r_.value.value.id
                NP = u(r_.value.slice.upper)
        # initial vertex 0
        init = [st for st in f.node.body if isinstance(st, ast.Expr) and isinstance(st.value, ast.Call) and u(st.value.func) == sol + ".from_vertex"]
        oi0 = [st for st in f.node.body if isinstance(st, ast.Assign) and u(st.targets[0]).startswith(OI + "[0]")]
        ok = bool(init) and const(init[0].value.args[1]) == 0 and bool(oi0) and const(oi0[0].value) == 0
        rep.check(ok, rule, f.key + "|(0,) initial", f.where, "the procedure must start from vertex 0 with ordered_indices[0] = 0")
        if ok:
            cands.add((0,))
        locs = {st.targets[0].id: st.value for st in f.node.body if isinstance(st, ast.Assign) and isinstance(st.targets[0], ast.Name)}
        for st in f.node.body:
            if not isinstance(st, ast.If):
                continue
            where = "%s:%d" % (f.module.relpath, st.lineno)
            test = locs.get(st.test.id, st.test) if isinstance(st.test, ast.Name) else st.test
            fl = [c for c in calls(st.body) if isinstance(c.func, ast.Attribute) and c.func.attr in ("from_line_segment", "from_face", "from_tetrahedron")]
            fv = [c for c in calls(st.body) if isinstance(c.func, ast.Attribute) and c.func.attr == "from_vertex"]
            if fl:
                c = fl[0]
                kind = c.func.attr
                if kind == "from_tetrahedron":
                    vlist = [0, 1, 2, 3]
                    a = _d_access(c.args[1]) if len(c.args) > 1 else None
                    cols = {a[1]} if a else set()
                    order_ok = a is not None and a[0] == ":"
                    weights = [(v, a[1]) for v in vlist] if a else []
                else:
                    vlist = [const(e) for e in c.args[1].elts] if isinstance(c.args[1], (ast.List, ast.Tuple)) else None
                    weights = [_d_access(w) for w in c.args[2:]]
                    if vlist is None or any(w is None for w in weights):
                        rep.bad(rule, "%s|%s" % (f.key, u(c)), where, "candidate call not in the form from_x(simplex, [vertices], d[v, c] ...)")
                        continue
                    cols = {w[1] for w in weights}
                    order_ok = [w[0] for w in weights] == vlist
                key = "%s|%s" % (fname, tuple(sorted(vlist)))
                cands.add(tuple(sorted(vlist)))
                rep.check(len(cols) == 1, rule, key + " one column", where, "weights %s come from different cofactor columns" % [u(w) for w in c.args[2:]])
                col = sorted(cols)[0] if cols else None
                rep.check(col is not None and subs.get(col) == set(vlist), rule, key + " column of its own subset", where,
                          "candidate %s takes its weights from column %s, whose cofactors belong to the subset %s" % (vlist, col, sorted(subs.get(col, []))),
                          "column %s <-> subset %s" % (col, sorted(vlist)))
                rep.check(order_ok, rule, key + " weight order", where,
                          "weights %s are not in the order of the vertex list %s: the barycentric coordinates are attached to the wrong vertices" % (
                              [u(w) for w in c.args[2:]], vlist))
                # guard reads the same column
                g = test
                gcols = set()
                for n_ in ast.walk(g):
                    if isinstance(n_, ast.Call) and isinstance(n_.func, ast.Attribute) and u(n_.func.value) == dname:
                        gcols |= _guard_columns(idx, ci, n_.func.attr)
                rep.check(bool(gcols) and col in gcols and all(subs.get(gc, set()) <= set(vlist) for gc in gcols), rule, key + " guard column", where,
                          "the guard `%s` reads cofactor columns %s, the candidate uses column %s" % (u(g), sorted(gcols), col))
                # acceptance
                inner = [s for s in st.body if isinstance(s, ast.If)]
                acc_ok, oi_ok, n_ok = False, False, False
                if inner:
                    t = inner[0].test
                    if ncmp(t) is not None:
                        op, a_, b_ = ncmp(t)
                        acc_ok = op == "<" and u(a_).endswith(".distance_squared") and u(a_) != u(b_) and u(b_) == sol + ".distance_squared"
                    elif key in TIE_EXCEPTIONS:
                        from ..core.astutil import disjuncts
                        dj = disjuncts(t)
                        first = ncmp(dj[0]) if dj else None
                        dloc = {s_.targets[0].id: s_.value for s_ in st.body if isinstance(s_, ast.Assign) and isinstance(s_.targets[0], ast.Name)}
                        acc_ok = first is not None and first[0] == "<" and isinstance(first[1], ast.Name) and const(first[2]) in (0, 0.0) \
                            and isinstance(dloc.get(first[1].id), ast.BinOp) and isinstance(dloc[first[1].id].op, ast.Sub) \
                            and u(dloc[first[1].id].right) == sol + ".distance_squared"
                    for s in inner[0].body:
                        if isinstance(s, ast.Assign) and u(s.targets[0]).startswith(OI + "["):
                            vals = [const(e) for e in s.value.elts] if isinstance(s.value, ast.Tuple) else [const(s.value)]
                            oi_ok = vals == vlist
                        if isinstance(s, ast.Assign) and u(s.targets[0]) == NP:
                            n_ok = const(s.value) == len(vlist)
                rep.check(acc_ok, rule, key + " strict acceptance", where, "candidate %s is not accepted under `solution_d.distance_squared < solution.distance_squared`" % vlist)
                rep.check(oi_ok and n_ok, rule, key + " records its vertices", where,
                          "after accepting candidate %s, ordered_indices / n_simplex_points do not record exactly that vertex list in order" % vlist)
            elif fv:
                v = const(fv[0].args[1])
                key = "%s|(%s,)" % (fname, v)
                cands.add((v,))
                ok = False
                if ncmp(test) is not None:
                    op, a_, b_ = ncmp(test)
                    ok = op == "<" and u(a_) == "%s.dot_product_table[%s, %s]" % (simplex, v, v) and sol in u(b_)
                rep.check(ok, rule, key + " strict acceptance", where, "vertex %s must be accepted under dot_product_table[%s, %s] < solution.distance_squared" % (v, v, v))
                oi = [s for s in st.body if isinstance(s, ast.Assign) and u(s.targets[0]) == OI + "[0]"]
                nn = [s for s in st.body if isinstance(s, ast.Assign) and u(s.targets[0]) == NP]
                rep.check(bool(oi) and const(oi[0].value) == v and bool(nn) and const(nn[0].value) == 1, rule, key + " records its vertices", where,
                          "vertex candidate %s does not record ordered_indices[0] = %s and n_simplex_points = 1" % (v, v))
        found[fname] = (n, cands)
        rets = [s for s in iter_stmts(f.node.body) if isinstance(s, ast.Return)]
        rep.check(len(rets) == 1 and u(rets[0].value) == "%s[:%s]" % (OI, NP), rule, f.key + "|returns the recorded subset", f.where,
                  "the procedure must return ordered_indices[:n_simplex_points]")
    rule2 = "R-EXHAUSTIVE"
    rep.rule(rule2, "the backup procedure compares every non-empty sub-simplex: 3 for a segment, 7 for a face, 15 for a tetrahedron", floor=3)
    for fname, (n, cands) in found.items():
        want = {c for k in range(1, n + 1) for c in itertools.combinations(range(n), k)}
        missing = sorted(want - cands)
        rep.check(not missing, rule2, "%s|%d sub-simplices" % (fname, len(want)), idx.func(O + "::" + fname).where,
                  "sub-simplices %s are never compared: the minimum-norm point can be missed" % missing, "%d of %d" % (len(cands & want), len(want)))
    # (d) Solution.from_*
    sc = idx.cls(O + "::Solution")
    for mname, k in (("from_line_segment", 2), ("from_face", 3)):
        m = sc.methods.get(mname)
        if m is None:
            raise AnalysisError("Solution.%s vanished" % mname)
        ps = [p for p in m.params() if p != "self"]
        w = ps[2:]
        body = list(iter_stmts(m.node.body))
        stores = {}
        for st in body:
            if isinstance(st, ast.Assign) and isinstance(st.targets[0], ast.Subscript) and u(st.targets[0].value) == "self.barycentric_coordinates":
                stores[const(st.targets[0].slice)] = st.value
        locs = {st.targets[0].id: st.value for st in body if isinstance(st, ast.Assign) and isinstance(st.targets[0], ast.Name)}
        ok = True
        for i in range(k - 1):
            v = stores.get(i)
            good = isinstance(v, ast.BinOp) and isinstance(v.op, ast.Div) and u(v.left) == w[i] and sorted(n_.id for n_ in ast.walk(locs.get(u(v.right), v.right)) if isinstance(n_, ast.Name)) == sorted(w)
            ok = ok and good
        last = stores.get(k - 1)
        ok = ok and last is not None and u(last).replace(" ", "").startswith("1.0-")
        sd = [st for st in body if isinstance(st, ast.Assign) and u(st.targets[0]) == "self.search_direction"]
        good = False
        if sd and dot_args(sd[0].value):
            a, b = dot_args(sd[0].value)
            good = u(a) == "self.barycentric_coordinates[:%d]" % k and u(b) == "%s.points[%s]" % (ps[0], ps[1])
        rep.check(ok and good, rule, sc.key + ".%s|normalised weights applied to the listed vertices" % mname, m.where,
                  "Solution.%s must set coords[i] = w_i / sum(w) in argument order and search_direction = coords[:%d] . points[vertex list]" % (mname, k))
