"""Symbolic heap interpreter for the AABB tree's link discipline (R-LINKS, R-REFIT).

insert_leaf and fix_upward_tree are executed over symbolic node indices.  The node table is a map (row value, column constant) -> value; a cell that
was not written reads as the pre-state term rd(row, col); boxes likewise.  Conditions on link values fork the path and are remembered as facts.  A
`while` loop is summarised (the variables it assigns become fresh exit symbols) and, separately, executed for ONE generic iteration so that its step
can be judged.  Private helpers of the module that receive one of the arrays are entered, so the same state results whether the relinking is written
inline, through `_replace_child(...)`, with temporaries, conditional expressions or swapped if-arms.

Assumption (tree invariant on entry, stated in DESIGN.md): distinct symbolic rows denote distinct nodes — the fresh slot `filled_len` is unused, the leaf
is not linked yet, a node is not its own parent."""
import ast
import copy

from ..core.astutil import u, call_name, strip_docstring


def const(v):
    return ("const", v)


class State:
    def __init__(self):
        self.env = {}
        self.nodes = {}
        self.boxes = {}
        self.facts = []          # (a, b, equal?)
        self.events = []
        self.ret = None
        self.done = False
        self.jump = None         # 'break' / 'continue' inside the generic iteration of a loop
        self.boxes_havoc = False

    def fork(self):
        s = State()
        s.env, s.nodes, s.boxes = dict(self.env), dict(self.nodes), dict(self.boxes)
        s.facts, s.events = list(self.facts), list(self.events)
        s.ret, s.done, s.boxes_havoc, s.jump = self.ret, self.done, self.boxes_havoc, self.jump
        return s

    def known(self, a, b):
        """True / False / None"""
        if a == b:
            return True
        if a[0] == "const" and b[0] == "const":
            return a[1] == b[1]
        for x, y, eq in self.facts:
            if (x == a and y == b) or (x == b and y == a):
                return eq
        return None


class LoopInfo:
    def __init__(self, func, lineno):
        self.func, self.lineno = func, lineno
        self.test = None            # value of the test in the generic iteration
        self.entry = {}             # var -> value at loop entry
        self.paths = []             # [(env after one iteration restricted to assigned vars, nodes writes, boxes writes)]
        self.assigned = []


class _IfExpToIf(ast.NodeTransformer):
    """`x = A if c else B` -> `if c: x = A else: x = B` (also for return); same evaluation order"""

    def _split(self, st, get, make):
        v = get(st)
        if isinstance(v, ast.IfExp):
            a = ast.copy_location(ast.If(test=v.test, body=[make(st, v.body)], orelse=[make(st, v.orelse)]), st)
            return self.visit(a)
        return st

    def visit_Assign(self, st):
        def make(s, val):
            n = copy.copy(s)
            n.value = val
            return n
        return self._split(st, lambda s: s.value, make)

    visit_Return = visit_Assign


class Interp:
    def __init__(self, idx, module, C):
        self.idx, self.module, self.C = idx, module, C
        self.loops = []
        self.problems = []
        self._n = 0

    # ------------------------------------------------------------------ values
    def ev(self, e, st):
        C = self.C
        if isinstance(e, ast.Constant):
            return const(e.value)
        if isinstance(e, ast.Name):
            if e.id in st.env:
                return st.env[e.id]
            if e.id in C:
                return const(C[e.id])
            return ("unk", e.id)
        if isinstance(e, ast.UnaryOp):
            v = self.ev(e.operand, st)
            if isinstance(e.op, ast.USub) and v[0] == "const" and isinstance(v[1], (int, float)):
                return const(-v[1])
            if isinstance(e.op, ast.Not):
                return ("not", v)
            return ("unk", u(e))
        if isinstance(e, ast.BinOp):
            a, b = self.ev(e.left, st), self.ev(e.right, st)
            if isinstance(e.op, (ast.Add, ast.Sub)):
                if a[0] == "const" and b[0] == "const" and isinstance(a[1], int) and isinstance(b[1], int):
                    return const(a[1] + b[1] if isinstance(e.op, ast.Add) else a[1] - b[1])
                if b[0] == "const" and isinstance(b[1], int):
                    k = b[1] if isinstance(e.op, ast.Add) else -b[1]
                    if a[0] == "add":
                        return ("add", a[1], a[2] + k) if a[2] + k else a[1]
                    return ("add", a, k) if k else a
                if a[0] == "const" and isinstance(a[1], int) and isinstance(e.op, ast.Add):
                    return ("add", b, a[1]) if a[1] else b
            return ("op", type(e.op).__name__, a, b)
        if isinstance(e, ast.Compare) and len(e.ops) == 1:
            op = {ast.Eq: "==", ast.NotEq: "!=", ast.Lt: "<", ast.LtE: "<=", ast.Gt: ">", ast.GtE: ">="}.get(type(e.ops[0]))
            if op:
                return ("cmp", op, self.ev(e.left, st), self.ev(e.comparators[0], st))
            return ("unk", u(e))
        if isinstance(e, ast.BoolOp):
            return ("bool", "and" if isinstance(e.op, ast.And) else "or", tuple(self.ev(v, st) for v in e.values))
        if isinstance(e, ast.IfExp):
            return ("ite", self.ev(e.test, st), self.ev(e.body, st), self.ev(e.orelse, st))
        if isinstance(e, ast.Tuple):
            return ("tuple", tuple(self.ev(x, st) for x in e.elts))
        if isinstance(e, ast.Subscript):
            base = self.ev(e.value, st)
            if isinstance(e.slice, ast.Slice):
                return ("unk", u(e))
            ix = [self.ev(x, st) for x in e.slice.elts] if isinstance(e.slice, ast.Tuple) else [self.ev(e.slice, st)]
            if base == ("arr", "nodes"):
                if len(ix) == 2:
                    return self.read_node(st, ix[0], ix[1])
                if len(ix) == 1:
                    return ("row", ix[0])
            if base[0] == "row" and len(ix) == 1:
                return self.read_node(st, base[1], ix[0])
            if base == ("arr", "aabbs") and len(ix) == 1:
                return self.read_box(st, ix[0])
            if base[0] == "tuple" and len(ix) == 1 and ix[0][0] == "const" and isinstance(ix[0][1], int) and -len(base[1]) <= ix[0][1] < len(base[1]):
                return base[1][ix[0][1]]
            return ("unk", u(e))
        if isinstance(e, ast.Call):
            name = (call_name(e) or "").split(".")[-1]
            args = tuple(self.ev(a, st) for a in e.args)
            if name == "_merge_aabb" and len(args) == 2:
                return ("merge", tuple(sorted(args, key=repr)))
            return ("call", name, args)
        return ("unk", u(e))

    def read_node(self, st, row, col):
        if col[0] == "ite":
            return ("ite", col[1], self.read_node(st, row, col[2]), self.read_node(st, row, col[3]))
        return st.nodes.get((row, col), ("rd", row, col))

    def read_box(self, st, row):
        if st.boxes_havoc:
            return ("box?", row)
        return st.boxes.get(row, ("box", row))

    # ------------------------------------------------------------------ conditions
    def cond(self, v, st):
        """[(truth, state)] — forks on undecided link comparisons (facts recorded)"""
        if v[0] == "const":
            return [(bool(v[1]), st)]
        if v[0] == "not":
            return [(not t, s) for t, s in self.cond(v[1], st)]
        if v[0] == "bool":
            want_all = v[1] == "and"
            out, pending = [], [(st, 0)]
            while pending:
                s, i = pending.pop()
                if i == len(v[2]):
                    out.append((want_all, s))
                    continue
                for t, s2 in self.cond(v[2][i], s):
                    if t == want_all:
                        pending.append((s2, i + 1))
                    else:
                        out.append((not want_all, s2))
            return out
        if v[0] == "cmp" and v[1] in ("==", "!="):
            k = st.known(v[2], v[3])
            if k is not None:
                return [((k if v[1] == "==" else not k), st)]
            s1, s2 = st.fork(), st.fork()
            s1.facts.append((v[2], v[3], True))
            s2.facts.append((v[2], v[3], False))
            return [(v[1] == "==", s1), (v[1] != "==", s2)]
        if v[0] == "cmp" and v[3] == const(0) and v[1] in ("<", ">="):
            # index < 0  <=>  index == INDEX_NONE (the only negative link value)
            none = const(self.C["INDEX_NONE"])
            eq = ("cmp", "==" if v[1] == "<" else "!=", v[2], none)
            return self.cond(eq, st)
        return [(True, st.fork()), (False, st.fork())]

    # ------------------------------------------------------------------ statements
    def run(self, stmts, states, fn):
        for stm in stmts:
            nxt = []
            for s in states:
                if s.done or s.jump:
                    nxt.append(s)
                else:
                    nxt.extend(self.step(stm, s, fn))
            states = nxt
            if len(states) > 64:
                self.problems.append("more than 64 paths in %s" % fn)
                states = states[:64]
        return states

    def store(self, t, v, st):
        if isinstance(t, ast.Name):
            st.env[t.id] = v
            return
        if isinstance(t, (ast.Tuple, ast.List)):
            vals = list(v[1]) if v[0] == "tuple" and len(v[1]) == len(t.elts) else [("unk", "elt")] * len(t.elts)
            for tt, vv in zip(t.elts, vals):
                self.store(tt, vv, st)
            return
        if isinstance(t, ast.Subscript) and not isinstance(t.slice, ast.Slice):
            base = self.ev(t.value, st)
            ix = [self.ev(x, st) for x in t.slice.elts] if isinstance(t.slice, ast.Tuple) else [self.ev(t.slice, st)]
            if base == ("arr", "nodes") and len(ix) == 2:
                self.write_node(st, ix[0], ix[1], v)
                return
            if base[0] == "row" and len(ix) == 1:
                self.write_node(st, base[1], ix[0], v)
                return
            if base == ("arr", "aabbs") and len(ix) == 1:
                st.boxes[ix[0]] = v
                return
        self.problems.append("store not modelled: %s" % u(t)[:60])

    def write_node(self, st, row, col, v):
        if col[0] != "const":
            self.problems.append("store into a computed column %r" % (col,))
            return
        st.nodes[(row, col)] = v

    def enter(self, call, st, fn_name):
        """states after running a private helper of the module that is handed one of the arrays; None if the call is not entered"""
        if not isinstance(call.func, ast.Name):
            return None
        callee = self.idx.resolve_call(self.module, call, None)
        node = getattr(callee, "node", None)
        if callee is None or not isinstance(node, ast.FunctionDef) or getattr(callee, "cls", None) is not None or callee.module is not self.module:
            return None
        if node.name in ("_merge_aabb", "fix_upward_tree", "insert_leaf"):
            return None
        args = [self.ev(a, st) for a in call.args]
        if not any(a[0] == "arr" for a in args) or call.keywords or len(args) != len(node.args.args):
            return None
        saved = st.env
        st.env = {p.arg: a for p, a in zip(node.args.args, args)}
        body = [_IfExpToIf().visit(copy.deepcopy(s)) for s in strip_docstring(node.body)]
        outs = self.run(body, [st], node.name)
        for o in outs:
            o.env = dict(saved)
            o.done = False
        return outs

    def step(self, stm, st, fn):
        if isinstance(stm, (ast.Assign, ast.Return, ast.Expr)) and isinstance(stm.value, ast.Call):
            name = (call_name(stm.value) or "").split(".")[-1]
            if name == "fix_upward_tree" and stm.value.args:
                args = [self.ev(a, st) for a in stm.value.args]
                st.events.append(("refit", args[0], dict(st.boxes)))
                st.boxes_havoc = True
                val = ("arr", "aabbs")
                return self.finish_value(stm, val, st)
            outs = self.enter(stm.value, st, fn)
            if outs is not None:
                res = []
                for o in outs:
                    val, o.ret = (o.ret if o.ret is not None else const(None)), None
                    res.extend(self.finish_value(stm, val, o))
                return res
        if isinstance(stm, ast.Assign):
            v = self.ev(stm.value, st)
            for t in stm.targets:
                if isinstance(t, (ast.Tuple, ast.List)) and isinstance(stm.value, (ast.Tuple, ast.List)) and len(t.elts) == len(stm.value.elts):
                    vals = [self.ev(x, st) for x in stm.value.elts]
                    for tt, vv in zip(t.elts, vals):
                        self.store(tt, vv, st)
                else:
                    self.store(t, v, st)
            return [st]
        if isinstance(stm, ast.AugAssign):
            cur = self.ev(stm.target, st)
            new = self.ev(ast.BinOp(left=stm.target, op=stm.op, right=stm.value), st) if isinstance(stm.target, ast.Name) else ("unk", u(stm))
            self.store(stm.target, new if cur[0] != "unk" else ("unk", u(stm)), st)
            return [st]
        if isinstance(stm, ast.Return):
            st.ret = self.ev(stm.value, st) if stm.value is not None else const(None)
            st.done = True
            return [st]
        if isinstance(stm, ast.If):
            out = []
            for truth, s in self.cond(self.ev(stm.test, st), st):
                out.extend(self.run(stm.body if truth else stm.orelse, [s], fn))
            return out
        if isinstance(stm, ast.While):
            return self.loop(stm, st, fn)
        if isinstance(stm, (ast.Break, ast.Continue)):
            st.jump = "break" if isinstance(stm, ast.Break) else "continue"
            return [st]
        if isinstance(stm, ast.For):
            for n in ast.walk(stm):
                if isinstance(n, ast.Name) and isinstance(n.ctx, ast.Store):
                    st.env[n.id] = ("unk", n.id)
            return [st]
        return [st]            # assert / pass / bare expressions

    def finish_value(self, stm, val, st):
        if isinstance(stm, ast.Assign):
            for t in stm.targets:
                self.store(t, val, st)
        elif isinstance(stm, ast.Return):
            st.ret, st.done = val, True
        return [st]

    def loop(self, w, st, fn):
        assigned = sorted({n.id for b in w.body for n in ast.walk(b) if isinstance(n, ast.Name) and isinstance(n.ctx, ast.Store)})
        info = LoopInfo(fn, w.lineno)
        info.assigned = assigned
        info.entry = {v: st.env.get(v) for v in assigned}
        # one generic iteration
        g = st.fork()
        for v in assigned:
            g.env[v] = ("sym", "it:" + v)
        g.nodes, g.boxes = {}, {}
        info.test = self.ev(w.test, g)
        for truth, s in self.cond(info.test, g):
            if not truth:
                continue
            for o in self.run(w.body, [s], fn):
                info.paths.append(({v: o.env.get(v) for v in assigned}, dict(o.nodes), dict(o.boxes), o.done or o.jump == "break"))
        self.loops.append(info)
        # summary: assigned variables become exit symbols; the negated test is a fact
        self._n += 1
        for v in assigned:
            st.env[v] = ("sym", "exit:%s@%s:%d" % (v, fn, w.lineno))
        if any(p[2] for p in info.paths):
            st.boxes_havoc = True
        out = []
        if any(p[3] for p in info.paths):
            out.append(st.fork())            # left through a break / return: the negated test is not known
        for truth, s in self.cond(self.ev(w.test, st), st):
            if not truth:
                out.append(s)
        return out or [st]


def run_function(idx, module, C, func, params):
    """-> (Interp, final states).  params: values for the function's parameters in order"""
    it = Interp(idx, module, C)
    st = State()
    for a, v in zip(func.node.args.args, params):
        st.env[a.arg] = v
    body = [_IfExpToIf().visit(copy.deepcopy(s)) for s in strip_docstring(func.node.body)]
    outs = it.run(body, [st], func.node.name)
    return it, outs
