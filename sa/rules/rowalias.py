"""R-ROWALIAS: a function that writes rows of an array it received must not depend on whether its other arguments are VIEWS of rows of that array.

In the two Nesterov files the callers hand `a = simplex[2]`, `b = simplex[1]`, ... (basic-index views) together with `simplex` to the functions that
re-order the simplex (`origin_to_point / _segment / _triangle`, also through `t_b` and the `region_*` helpers).  `simplex[0], simplex[1], simplex[2] = b, c, a`
without copies reads `a` after the row it views was overwritten: one vertex is duplicated and one is lost.  The rule

  1. infers, from the call sites of the module, which parameters of which functions are views of WHICH row of the function's first parameter
     (a local bound to `X[i]` passed together with `X`; transitively through parameters that are themselves such views): joint assignments per call site;
  2. interprets every function that stores rows of its first parameter, on every path, for each of those assignments
     (every injective assignment of rows 0..3 only when a row is not a constant — then a hit is UNKNOWN, not a verdict): `np.copy(p)` / arithmetic reads the row NOW, a bare name stored by a tuple assignment is read when ITS store
     happens, stores are sequential;
  3. reports a read of a parameter whose row holds, at that moment, something else than at entry.

Nothing of the repository is executed; rows hold labels."""
import ast
import itertools

from ..core.astutil import u, resolved, strip_docstring, const


def _first_param(f):
    ps = f.params()
    return ps[0] if ps else None


def _const_index(fnode, sl):
    v = const(sl)
    if isinstance(v, int) and not isinstance(v, bool):
        return v
    if isinstance(sl, ast.Name):
        r = resolved(fnode, sl)
        v = const(r)
        if isinstance(v, int) and not isinstance(v, bool):
            return v
    return None


def view_contexts(idx, module):
    """{function key: set of frozenset((parameter, row) ...)}: for every function of the module, the joint assignments `parameter p is a view of row r of the
    first parameter` that occur at its call sites (row None = a view whose row is not a constant).  Seeds: a local bound to `X[i]` passed together with `X`;
    propagated through parameters that are themselves such views and are passed on together with the same array."""
    funcs = {f.name: f for f in module.functions.values() if f.cls is None}
    ctx = {f.key: set() for f in funcs.values()}
    for _ in range(6):
        changed = False
        for g in funcs.values():
            gS = _first_param(g)
            g_ctxs = ctx[g.key] or {frozenset()}
            for c in ast.walk(g.node):
                if not (isinstance(c, ast.Call) and isinstance(c.func, ast.Name) and c.func.id in funcs and not c.keywords):
                    continue
                f = funcs[c.func.id]
                ps = f.params()
                if len(c.args) != len(ps) or not c.args or not isinstance(c.args[0], ast.Name):
                    continue
                arr = c.args[0].id
                for gc in g_ctxs:
                    gd = dict(gc)
                    new = {}
                    for p, a in list(zip(ps, c.args))[1:]:
                        if not isinstance(a, ast.Name):
                            continue
                        d = resolved(g.node, a)
                        if isinstance(d, ast.Subscript) and isinstance(d.value, ast.Name) and d.value.id == arr and not isinstance(d.slice, (ast.Slice, ast.Tuple)):
                            new[p] = _const_index(g.node, d.slice)          # a = X[i]  ...  f(X, ..., a, ...)
                        elif a.id in gd and arr == gS and a.id in g.params():
                            new[p] = gd[a.id]                               # a view parameter passed on together with the same array
                    if new:
                        fc = frozenset(new.items())
                        if fc not in ctx[f.key]:
                            ctx[f.key].add(fc)
                            changed = True
        if not changed:
            break
    return ctx


class _Unknown(Exception):
    pass


def _paths(stmts):
    """every path through a statement list as a list of simple statements / ('test', expr) markers; loops are taken zero and one time"""
    if not stmts:
        yield []
        return
    st, rest = stmts[0], stmts[1:]
    if isinstance(st, ast.If):
        for arm in (st.body, st.orelse):
            for p1 in _paths(list(arm)):
                if p1 and isinstance(p1[-1], ast.Return):
                    yield [("test", st.test)] + p1
                else:
                    for p2 in _paths(rest):
                        yield [("test", st.test)] + p1 + p2
    elif isinstance(st, (ast.For, ast.While)):
        for body in ([], list(st.body)):
            for p1 in _paths(body):
                for p2 in _paths(rest):
                    yield [("test", st.iter if isinstance(st, ast.For) else st.test)] + [x for x in p1 if not isinstance(x, (ast.Break, ast.Continue))] + p2
    elif isinstance(st, ast.Return):
        yield [st]
    elif isinstance(st, (ast.Try, ast.With)):
        raise _Unknown("statement %s" % type(st).__name__)
    else:
        for p2 in _paths(rest):
            yield [st] + p2


def check_function(f, S, assignments):
    """assignments: list of {parameter: row}; -> list of (lineno, message); raises _Unknown"""
    body = strip_docstring(f.node.body)
    bad = {}
    paths = list(_paths(list(body)))
    if len(paths) > 256:
        raise _Unknown("more than 256 paths")
    for row in assignments:
        for path in paths:
            cells = {}          # row index -> label; absent = ("row", i) as at entry

            def cur(i):
                return cells.get(i, ("row", i))

            def read(name, node):
                r = row[name]
                if cur(r) != ("row", r):
                    bad.setdefault((node.lineno, name), "`%s` (a view of row %d of `%s` at the call sites) is read after row %d was overwritten with %s — e.g. with the arguments viewing rows %s"
                                   % (name, r, S, r, "the old row %d" % cur(r)[1] if cur(r)[0] == "row" else "a new value", ", ".join("%s=%d" % kv for kv in row.items())))
                return cur(r)

            def ev_now(e):
                """evaluate e now; returns the label of the value if it is exactly a (copied) parameter, else an opaque label; every parameter read is checked"""
                inner = e
                if isinstance(e, ast.Call) and u(e.func) in ("np.copy", "np.array", "np.ascontiguousarray", "np.asarray") and len(e.args) == 1 and not e.keywords:
                    inner = e.args[0]
                elif isinstance(e, ast.Call) and isinstance(e.func, ast.Attribute) and e.func.attr == "copy" and not e.args:
                    inner = e.func.value
                if isinstance(inner, ast.Name) and inner.id in row:
                    return read(inner.id, inner)
                for n in ast.walk(e):
                    if isinstance(n, ast.Name) and isinstance(n.ctx, ast.Load) and n.id in row:
                        read(n.id, n)
                return ("new", getattr(e, "lineno", 0), u(e)[:30])

            for st in path:
                if isinstance(st, tuple):
                    ev_now(st[1])
                    continue
                if isinstance(st, ast.Return):
                    if st.value is not None:
                        ev_now(st.value)
                    break
                if isinstance(st, ast.Assign) and len(st.targets) == 1:
                    t = st.targets[0]
                    pairs = None
                    if isinstance(t, ast.Tuple) and isinstance(st.value, ast.Tuple) and len(t.elts) == len(st.value.elts):
                        pairs = list(zip(t.elts, st.value.elts))
                    elif not isinstance(t, ast.Tuple):
                        pairs = [(t, st.value)]
                    if pairs is None:
                        ev_now(st.value)
                        continue
                    # right-hand sides first: a bare parameter stays a view (read when its own store happens), everything else is evaluated now
                    vals = []
                    for tt, vv in pairs:
                        if isinstance(vv, ast.Name) and vv.id in row:
                            vals.append(("view", vv))
                        else:
                            vals.append(("val", ev_now(vv)))
                    for (tt, vv), (kind, val) in zip(pairs, vals):
                        label = read(val.id, val) if kind == "view" else val
                        if isinstance(tt, ast.Subscript) and isinstance(tt.value, ast.Name) and tt.value.id == S:
                            i = _const_index(f.node, tt.slice)
                            if i is None:
                                raise _Unknown("store into `%s` with a non-constant row" % u(tt))
                            cells[i] = label
                        elif isinstance(tt, ast.Name) and tt.id in row:
                            raise _Unknown("parameter `%s` is rebound" % tt.id)
                    continue
                if isinstance(st, ast.AugAssign):
                    if isinstance(st.target, ast.Subscript) and isinstance(st.target.value, ast.Name) and st.target.value.id == S:
                        i = _const_index(f.node, st.target.slice)
                        if i is None:
                            raise _Unknown("store into `%s` with a non-constant row" % u(st.target))
                        ev_now(st.value)
                        cells[i] = ("new", st.lineno, "aug")
                    else:
                        ev_now(st.value)
                    continue
                for n in ast.walk(st):
                    if isinstance(n, ast.Name) and isinstance(n.ctx, ast.Load) and n.id in row:
                        read(n.id, n)
    return sorted((ln, msg) for (ln, _), msg in bad.items())


def r_rowalias(idx, rep, modules, rule="R-ROWALIAS", floor=6):
    rep.rule(rule, "functions that re-order the rows of the simplex they receive give the same result whether their vertex arguments are copies or views of rows of "
                   "that simplex (the callers pass views): every parameter is read before the row it may view is overwritten, or copied first — interpretation of "
                   "every path over labelled rows, for the rows the parameters view at the call sites of the module", floor=floor)
    for mname in modules:
        m = idx.module(mname)
        ctxs = view_contexts(idx, m)
        for f in sorted((f for f in m.functions.values() if f.cls is None), key=lambda f: f.key):
            S = _first_param(f)
            if S is None:
                continue
            stores = [n for n in ast.walk(f.node) if isinstance(n, ast.Subscript) and isinstance(n.ctx, ast.Store) and isinstance(n.value, ast.Name) and n.value.id == S]
            cs = [dict(c) for c in ctxs.get(f.key, ())]
            views = sorted({p for c in cs for p in c})
            if not stores or not views:
                continue
            key = "%s|alias-safe row stores into `%s` (views: %s)" % (f.key, S, ", ".join(views))
            exact = all(r is not None for c in cs for r in c.values())
            if not exact:
                # some call site passes a view of a row that is not a constant: every assignment of different rows is tried, a hit is not a verdict
                if len(views) > 4:
                    rep.unknown(rule, key, f.where, "more than four view parameters")
                    continue
                cs = [dict(zip(views, rows)) for rows in itertools.permutations(range(4), len(views))]
            try:
                bad = check_function(f, S, cs)
            except _Unknown as e:
                rep.unknown(rule, key, f.where, "not interpretable: %s" % e)
                continue
            if bad and not exact:
                rep.unknown(rule, key, "%s:%d" % (f.module.relpath, bad[0][0]), "alias-unsafe for SOME assignment of rows, but the rows used at the call sites are not constants: " + bad[0][1])
            elif bad:
                ln, msg = bad[0]
                rep.bad(rule, key, "%s:%d" % (f.module.relpath, ln),
                        "%s: %s. With views the vertex is duplicated and another one is lost; the next sub-simplex test works on a degenerate simplex" % (f.name, msg))
            else:
                rep.ok(rule, key, f.where, "%d call-site assignment(s) of rows to %d view parameter(s): every read precedes the overwrite of its row or is a copy" % (len(cs), len(views)))
