"""R-SAFEDIV (C19, finite outputs): in the MPR module, the closed-form support functions and utils.norm_vector a division by a
MAGNITUDE (norm / sqrt / abs / sum / dot(x, x) / a callee's distance result — quantities that are exactly 0.0 for the touching,
coincident and axis-parallel placements of the declared domain) happens only on the side of a test that excludes the zero.

Accepted guard idioms (enumerated from the repository):
  G1  if d == 0.0: <exit>            ... x / d         (early exit, e.g. utils.norm_vector, support_function_disk)
  G2  if d == 0.0: A  else: x / d                      (support_function_cylinder / capsule / sphere / cone)
  G3  if d > 0 / d != 0 / d > eps:  x / d              (convert_segment_to_line, line_from_pluecker)
  G4  if abs(d) < eps: A  else: x / d                  (mirror image of G3)
A division inside the zero side of such a test, or with no test on its divisor at all, is a violation.
A test that only RECOMPUTES the divisor (mpr._contact_position's fallback weights) proves nothing: UNKNOWN.
"""
import ast

from ..core.astutil import u, call_name, dot_args, ncmp, parent_map, is_const, conjuncts, stable_text, const
from ..core.index import FuncInfo
from ..engines.signs import Signs, NONNEG, ZERO

SCOPE_MODULES = ("distance3d.mpr",)
SCOPE_FUNCS = ("distance3d.utils::norm_vector", "distance3d.geometry::support_function_cylinder", "distance3d.geometry::support_function_capsule",
               "distance3d.geometry::support_function_sphere", "distance3d.geometry::support_function_disk", "distance3d.geometry::support_function_cone",
               "distance3d.geometry::support_function_ellipse", "distance3d.geometry::support_function_ellipsoid", "distance3d.geometry::convert_segment_to_line",
               "distance3d.geometry::line_from_pluecker")
MAG_CALLS = ("np.linalg.norm", "math.sqrt", "np.sqrt", "abs", "np.abs", "sum", "np.sum", "math.hypot")


def _defs(f, name):
    out = []
    for st in ast.walk(f.node):
        if isinstance(st, ast.Assign):
            for t in st.targets:
                if isinstance(t, ast.Name) and t.id == name:
                    out.append((st.value, None))
                elif isinstance(t, ast.Tuple):
                    for i, e in enumerate(t.elts):
                        if isinstance(e, ast.Name) and e.id == name:
                            out.append((st.value, i))
        elif isinstance(st, ast.AugAssign) and isinstance(st.target, ast.Name) and st.target.id == name:
            out.append((st.value, None))
    return out


def _magnitude(d, f, idx, sg, depth=0):
    """why the divisor can be exactly zero on valid input, or None when it is not a magnitude"""
    if isinstance(d, ast.Call):
        cn = call_name(d) or ""
        if cn in MAG_CALLS:
            return cn
        da = dot_args(d)
        if da and u(da[0]) == u(da[1]):
            return "dot(x, x)"
        return None
    if isinstance(d, ast.BinOp) and isinstance(d.op, ast.Mult):
        return _magnitude(d.left, f, idx, sg, depth) or _magnitude(d.right, f, idx, sg, depth)
    if isinstance(d, ast.Name) and depth < 2 and d.id not in f.params():
        why = None
        for val, pos in _defs(f, d.id):
            if pos is None:
                w = _magnitude(val, f, idx, sg, depth + 1)
            else:
                w = None
                if isinstance(val, ast.Call):
                    callee = idx.resolve_call(f.module, val, f.cls)
                    if isinstance(callee, FuncInfo):
                        s = sg.summary(callee)
                        if isinstance(s, tuple) and pos < len(s) and s[pos] in (NONNEG, ZERO):
                            w = "%s()[%d] (a distance, >= 0)" % (callee.name, pos)
            why = why or w
        return why
    return None


def _zero_side(test, dnames, dtxt):
    """for an `if test:` return 'body' / 'orelse' = the side on which the divisor may be zero, or None when the test says nothing"""
    sides = set()
    for c in conjuncts(test):
        t = ncmp(c)
        if t is None:
            continue
        op, a, b = t

        def is_d(x):
            if isinstance(x, ast.Call) and call_name(x) in ("abs", "np.abs") and x.args:
                x = x.args[0]
            return (isinstance(x, ast.Name) and x.id in dnames) or u(x) == dtxt
        if is_d(a) and not is_d(b):
            # d == c / d < c / d <= c   -> zero in body ;  d != c -> zero in orelse
            sides.add("orelse" if op == "!=" else "body")
        elif is_d(b) and not is_d(a):
            # c < d / c <= d -> non-zero in body ; c == d -> zero in body
            sides.add("body" if op == "==" else "orelse")
    return sides.pop() if len(sides) == 1 else None


def _exits(body):
    return bool(body) and isinstance(body[-1], (ast.Return, ast.Raise, ast.Continue, ast.Break))


# one named exception per symbol, with the reason
SAFEDIV_EXCEPTIONS = {
    ("distance3d.distance._line::point_to_line_segment", "BinOp"):
        "divides by |segment_end - segment_start|^2 without a test: a segment of length 0 is outside domain D (strictly positive sizes); inside the domain the "
        "divisor is > 0 (upstream behaviour, left as it is)",
}


def r_safediv(idx, rep, rule="R-SAFEDIV", floor=8, unknown_ceiling=1, funcs=None):
    rep.rule(rule, "divisions by a magnitude (norm / sqrt / abs / sum / dot(x,x) / a callee's distance) in MPR, the closed-form support "
                   "functions and norm_vector sit on the non-zero side of a test of that magnitude (guard idioms G1-G4); such magnitudes are "
                   "exactly 0.0 for touching / coincident / axis-parallel placements, and x / 0.0 is NaN or inf (or ZeroDivisionError in compiled code)",
             floor=floor, unknown_ceiling=unknown_ceiling)
    sg = Signs(idx)
    if funcs is None:
        funcs = []
        for mn in SCOPE_MODULES:
            funcs.extend(f for f in idx.module(mn).functions.values())
        for k in SCOPE_FUNCS:
            funcs.append(idx.func(k))
    for f in funcs:
        pm = None
        for node in ast.walk(f.node):
            d = None
            if getattr(node, "lineno", None) is not None and (f.key, type(node).__name__) in SAFEDIV_EXCEPTIONS and isinstance(node, (ast.BinOp, ast.AugAssign)) \
                    and isinstance(node.op, ast.Div):
                rep.note("R-SAFEDIV exception %s: %s" % (f.key, SAFEDIV_EXCEPTIONS[(f.key, type(node).__name__)]))
                continue
            if isinstance(node, ast.BinOp) and isinstance(node.op, ast.Div):
                d = node.right
            elif isinstance(node, ast.AugAssign) and isinstance(node.op, ast.Div):
                d = node.value
            if d is None or isinstance(d, ast.Constant):
                continue
            why = _magnitude(d, f, idx, sg)
            if why is None:
                continue
            pm = pm or parent_map(f.node)
            dnames = {n.id for n in ast.walk(d) if isinstance(n, ast.Name) and n.id not in ("np", "math")}
            dtxt = u(d)
            key = "%s|division by %s" % (f.key, stable_text(d, f.node))
            where = "%s:%d" % (f.module.relpath, node.lineno)
            verdict, detail = None, None
            ch, p = node, pm.get(node)
            while p is not None and verdict is None:
                if isinstance(p, (ast.If, ast.IfExp)):
                    zs = _zero_side(p.test, dnames, dtxt)
                    if zs is not None:
                        body = p.body if isinstance(p.body, list) else [p.body]
                        orelse = p.orelse if isinstance(p.orelse, list) else [p.orelse]
                        inside = "body" if any(ch is x for x in body) else ("orelse" if any(ch is x for x in orelse) else None)
                        if inside is not None:
                            if inside == zs:
                                verdict, detail = "BAD", "the division sits on the ZERO side of `%s`" % u(p.test)
                            else:
                                verdict, detail = "OK", "non-zero side of `%s`" % u(p.test)
                for fld in ("body", "orelse"):
                    seq = getattr(p, fld, None)
                    if verdict is None and isinstance(seq, list) and any(ch is x for x in seq):
                        i = [k for k, x in enumerate(seq) if x is ch][0]
                        for st in seq[:i]:
                            if isinstance(st, ast.If):
                                zs = _zero_side(st.test, dnames, dtxt)
                                if zs == "body" and _exits(st.body) and not st.orelse:
                                    verdict, detail = "OK", "after the early exit `if %s`" % u(st.test)
                                elif zs == "body" and not _exits(st.body):
                                    if verdict is None:
                                        verdict, detail = "UNKNOWN", "`if %s` only recomputes the divisor (fallback), it does not exclude zero" % u(st.test)
                if isinstance(p, (ast.FunctionDef, ast.AsyncFunctionDef)):
                    break
                ch, p = p, pm.get(p)
            if verdict == "OK":
                rep.ok(rule, key, where, "%s: %s" % (why, detail))
            elif verdict == "UNKNOWN":
                rep.unknown(rule, key, where, "%s: %s" % (why, detail))
            else:
                rep.bad(rule, key, where,
                        "`%s` divides by `%s` (%s), which is exactly 0.0 for touching / coincident / axis-parallel placements of the declared domain, and %s: "
                        "the result is NaN/inf (ZeroDivisionError in compiled code) instead of a finite answer; normalise with norm_vector(.) or test the "
                        "magnitude first" % (u(node)[:80], dtxt, why, detail or "no test of that magnitude dominates the division"))


def r_selected_component(idx, rep, rule="R-SELCOMP", floor=0):
    rep.rule(rule, "a division by a vector component whose index is COMPUTED (`v[k]`, k a local) requires k to be selected as a non-zero "
                   "component of that same vector: `np.where(v != 0)[0][..]` with a non-emptiness assertion, or `np.argmax(np.abs(v))`; "
                   "argmax of the signed vector picks a zero component for directions without a positive entry (0/0 = NaN slips through every "
                   "ordering test that follows)", floor=floor)
    for m in idx.lib_modules():
        if not m.name.startswith("distance3d.distance"):
            continue
        for f in m.functions.values():
            params = set(f.params())
            for node in ast.walk(f.node):
                if not (isinstance(node, ast.BinOp) and isinstance(node.op, ast.Div)):
                    continue
                d = node.right
                if not (isinstance(d, ast.Subscript) and isinstance(d.value, ast.Name) and isinstance(d.slice, ast.Name) and d.slice.id not in params):
                    continue
                vec, k = d.value.id, d.slice.id
                key = "%s|division by a selected component of %s" % (f.key, stable_text(d.value, f.node))
                where = "%s:%d" % (m.relpath, node.lineno)
                defs = [v for v, pos in _defs(f, k) if pos is None]
                # an index that is only ever one of the function's own index PARAMETERS (`ia, ib = (i0, i1)` under a test, mirror arms rolled into one) has the
                # status of a parameter: which component it names is the caller's dispatch, judged there (R-CASEDISPATCH)
                from ..core.astutil import assign_pairs as _ap
                alld = [v_ for st_ in ast.walk(f.node) if isinstance(st_, ast.Assign) for t_, v_ in _ap(st_) if isinstance(t_, ast.Name) and t_.id == k]
                if alld and all(isinstance(v_, ast.Name) and v_.id in params for v_ in alld):
                    continue
                ok, why = False, "index `%s` has %d definitions" % (k, len(defs))
                if len(defs) == 1 and isinstance(defs[0], ast.Call) and call_name(defs[0]) == "np.argmax" and defs[0].args:
                    # np.argmax(mask) with mask = (vec != 0) and an assertion that the mask has a True entry: the first non-zero component
                    from ..core.astutil import resolved as _res
                    mk = defs[0].args[0]
                    mv = _res(f.node, mk) if isinstance(mk, ast.Name) else mk
                    t_ = ncmp(mv) if isinstance(mv, ast.Compare) else None
                    nonzero_ = t_ is not None and t_[0] == "!=" and vec in (u(t_[1]), u(t_[2])) and any(is_const(x_, 0) or is_const(x_, 0.0) for x_ in (t_[1], t_[2]))
                    mname = mk.id if isinstance(mk, ast.Name) else None
                    asserted_ = mname is not None and any(isinstance(a_, ast.Assert) and mname in {n_.id for n_ in ast.walk(a_.test) if isinstance(n_, ast.Name)}
                                                          and ("any" in u(a_.test)) for a_ in ast.walk(f.node))
                    if nonzero_ and asserted_:
                        rep.ok(rule, key, where, "first True of the mask `%s != 0`, asserted non-empty" % vec)
                        continue
                if len(defs) == 1:
                    v = defs[0]
                    # np.argmax(np.abs(vec))
                    if isinstance(v, ast.Call) and call_name(v) == "np.argmax" and v.args and isinstance(v.args[0], ast.Call) \
                            and call_name(v.args[0]) in ("np.abs", "abs", "np.absolute") and u(v.args[0].args[0]) == vec:
                        ok = True
                    # K[0] with K = np.where(vec != 0.0)[0] and assert len(K) > 0
                    elif isinstance(v, ast.Subscript) and isinstance(v.value, ast.Name):
                        kd = [x for x, pos in _defs(f, v.value.id) if pos is None]
                        # the indices of the non-zero components: np.where(c)[0] == np.nonzero(c)[0] == np.flatnonzero(c) for a 1-D condition
                        cond_ = None
                        if len(kd) == 1 and isinstance(kd[0], ast.Subscript) and isinstance(kd[0].value, ast.Call) and call_name(kd[0].value) in ("np.where", "np.nonzero") \
                                and len(kd[0].value.args) == 1 and const(kd[0].slice) == 0:
                            cond_ = kd[0].value.args[0]
                        elif len(kd) == 1 and isinstance(kd[0], ast.Call) and call_name(kd[0]) == "np.flatnonzero" and len(kd[0].args) == 1:
                            cond_ = kd[0].args[0]
                        if cond_ is not None and isinstance(cond_, ast.Compare):
                            t = ncmp(cond_)
                            nonzero = t is not None and t[0] == "!=" and vec in (u(t[1]), u(t[2])) and (is_const(t[1], 0) or is_const(t[2], 0) or is_const(t[1], 0.0) or is_const(t[2], 0.0))
                            asserted = any(isinstance(a, ast.Assert) and v.value.id in {n.id for n in ast.walk(a.test) if isinstance(n, ast.Name)} for a in ast.walk(f.node))
                            ok = nonzero and asserted
                            why = "`%s` is not `np.where(%s != 0)[0]` guarded by an assertion" % (u(kd[0]), vec) if not ok else ""
                        else:
                            why = "`%s = %s` does not select a non-zero component of %s" % (k, u(v), vec)
                    else:
                        why = "`%s = %s` does not select a non-zero component of %s" % (k, u(v), vec)
                rep.check(ok, rule, key, where,
                          "`%s` divides by `%s[%s]` but %s: for a valid direction without a positive entry (or with exact zeros) the divisor is 0.0 and "
                          "the quotient NaN — every later `<` / `>` test is then False and the unclamped value is returned" % (u(node)[:70], vec, k, why),
                          "non-zero component selected")


# ------------------------------------------------------------------------------------------------ sqrt domain
def _nonneg(e, f, depth=0):
    """'yes' when e is >= 0 by construction, 'no' when it is sign-indefinite by construction (a difference, an inner product of two
    different vectors, a product with such a factor ...), None when unknown (parameters, callee results)"""
    if isinstance(e, ast.Constant) and isinstance(e.value, (int, float)):
        return "yes" if e.value >= 0 else "no"
    if isinstance(e, ast.UnaryOp) and isinstance(e.op, ast.USub):
        v = _nonneg(e.operand, f, depth)
        return "no" if v in ("yes", "no") else None
    if isinstance(e, ast.Call):
        cn = call_name(e) or ""
        if cn in ("abs", "np.abs", "math.fabs", "np.linalg.norm", "math.sqrt", "np.sqrt", "np.square"):
            return "yes"
        if cn in ("max", "np.maximum") and any(_nonneg(a, f, depth) == "yes" for a in e.args):
            return "yes"
        da = dot_args(e)
        if da:
            return "yes" if u(da[0]) == u(da[1]) else "no"
        if cn in ("np.sum", "sum") and e.args:
            return _nonneg(e.args[0], f, depth)
        return None
    if isinstance(e, ast.BinOp):
        if isinstance(e.op, ast.Mult):
            if u(e.left) == u(e.right):
                return "yes"
            l, r = _nonneg(e.left, f, depth), _nonneg(e.right, f, depth)
            if l == "yes" and r == "yes":
                return "yes"
            return "no" if "no" in (l, r) and None not in (l, r) else None
        if isinstance(e.op, ast.Pow) and isinstance(e.right, ast.Constant) and e.right.value == 2:
            return "yes"
        if isinstance(e.op, ast.Add):
            l, r = _nonneg(e.left, f, depth), _nonneg(e.right, f, depth)
            if l == "yes" and r == "yes":
                return "yes"
            return "no" if "no" in (l, r) else None
        if isinstance(e.op, ast.Div):
            l, r = _nonneg(e.left, f, depth), _nonneg(e.right, f, depth)
            if l == "yes" and r == "yes":
                return "yes"
            return "no" if "no" in (l, r) and None not in (l, r) else None
        if isinstance(e.op, ast.Sub):
            return "no"       # a difference rounds below zero when both terms are (nearly) equal
        return None
    if isinstance(e, ast.Name) and depth < 4 and e.id not in f.params():
        ds = [v for v, pos in _defs(f, e.id) if pos is None]
        if not ds or len(ds) != len(_defs(f, e.id)):
            return None
        vs = [_nonneg(d, f, depth + 1) for d in ds]
        if any(v == "no" for v in vs):
            return "no"
        return "yes" if all(v == "yes" for v in vs) else None
    return None


def r_sqrtdomain(idx, rep, rule="R-SQRTDOMAIN", modules=None, floor=10, unknown_ceiling=12, njit_only=False, sqrt_calls=("math.sqrt",)):
    rep.rule(rule, "/".join(sqrt_calls) + " never sees a value that can round below zero: its argument is >= 0 by construction (sum of squares, dot(x,x), "
                   "abs, max(., 0)) on every definition that reaches it; a bare difference such as c - b*b is negative by rounding for "
                   "coincident / parallel inputs (interpreted: ValueError 'math domain error'; compiled: silent NaN)",
             floor=floor, unknown_ceiling=unknown_ceiling)
    for f in idx.all_functions():
        if f.module.is_test or (modules is not None and not f.module.name.startswith(tuple(modules))) or (njit_only and not f.njit):
            continue
        k = 0
        for c in ast.walk(f.node):
            if isinstance(c, ast.Call) and call_name(c) in sqrt_calls and c.args:
                k += 1
                key = "%s|sqrt #%d" % (f.key, k)
                where = "%s:%d" % (f.module.relpath, c.lineno)
                v = _nonneg(c.args[0], f)
                if v == "yes":
                    rep.ok(rule, key, where, "argument >= 0 by construction")
                elif v == "no":
                    rep.bad(rule, key, where,
                            "`%s`: on some definition that reaches it the argument is sign-indefinite by construction (a difference or a mixed-sign product, not wrapped in abs / max(., 0)); for coincident, "
                            "parallel or touching inputs the two terms are equal up to rounding and the difference is a tiny NEGATIVE number: the interpreted "
                            "library raises ValueError('math domain error') for math.sqrt, the compiled one and np.sqrt return NaN" % u(c)[:80])
                else:
                    rep.unknown(rule, key, where, "sign of `%s` not decided (parameter / callee result)" % u(c.args[0])[:60])


# ---------------------------------------------------------------------------------------------------------------------------------
# R-ROUNDTRIP: a radicand that can vanish must not be fed by a value re-derived through cancellation.

def _resolve(e, f, depth=0, seen=()):
    """copy of e with every local that has exactly one plain definition in f replaced by that definition (bounded)"""
    class Sub(ast.NodeTransformer):
        def visit_Name(self, n):
            if isinstance(n.ctx, ast.Load) and n.id not in f.params() and n.id not in seen and depth < 4:
                ds = _defs(f, n.id)
                if len(ds) == 1 and ds[0][1] is None:
                    return _resolve(ds[0][0], f, depth + 1, seen + (n.id,))
            return n
    import copy
    return Sub().visit(copy.deepcopy(e))


def _addends(e):
    if isinstance(e, ast.BinOp) and isinstance(e.op, ast.Add):
        return _addends(e.left) + _addends(e.right)
    return [e]


def _roundtrips(e):
    """(difference, recovered term) for every sub-expression (Y + T) - Y of an already resolved expression"""
    out = []
    for n in ast.walk(e):
        if isinstance(n, ast.BinOp) and isinstance(n.op, ast.Sub):
            adds = _addends(n.left)
            if len(adds) >= 2:
                r = ast.dump(n.right)
                if any(ast.dump(a) == r for a in adds):
                    rest = [a for a in adds if ast.dump(a) != r]
                    out.append((n, rest))
    return out


def _strip_clamp(e):
    while isinstance(e, ast.Call) and (call_name(e) or "") in ("max", "np.maximum", "abs", "np.abs", "np.fmax") and e.args:
        args = [a for a in e.args if not isinstance(a, ast.Constant)]
        if len(args) != 1:
            break
        e = args[0]
    return e


def r_roundtrip(idx, rep, rule="R-ROUNDTRIP", modules=None, floor=3, sqrt_calls=("np.sqrt", "math.sqrt")):
    rep.rule(rule, "a square root whose radicand is a difference (it vanishes for axis-aligned / touching placements, where sqrt has unbounded "
                   "slope) is not fed by a quantity re-derived through cancellation, (Y + T) - Y in place of T: the round trip carries an error of "
                   "ulp(Y)/|T|, and sqrt turns 1e-14 into 1e-7 — a bound that is no longer attained within 1e-9*L",
             floor=floor)
    for f in idx.all_functions():
        if f.module.is_test or (modules is not None and not f.module.name.startswith(tuple(modules))):
            continue
        k = 0
        for c in ast.walk(f.node):
            if not (isinstance(c, ast.Call) and call_name(c) in sqrt_calls and c.args):
                continue
            rad = _strip_clamp(_resolve(c.args[0], f))
            if not (isinstance(rad, ast.BinOp) and isinstance(rad.op, ast.Sub)):
                continue
            k += 1
            key = "%s|vanishing sqrt #%d" % (f.key, k)
            where = "%s:%d" % (f.module.relpath, c.lineno)
            rts = _roundtrips(rad)
            if rts:
                n, rest = rts[0]
                rep.bad(rule, key, where,
                        "the radicand of `%s` resolves to `%s`, which contains the round trip `%s`: `%s` is recovered as a difference of two "
                        "roundings instead of being used directly; for a collider far from the origin the relative error ulp(position)/|%s| "
                        "is amplified by the square root at the vanishing radicand (axis-aligned pose: bound off by ~1e-7 at position 100)"
                        % (u(c)[:70], u(rad)[:110], u(n)[:70], " + ".join(u(a) for a in rest)[:50], " + ".join(u(a) for a in rest)[:30]))
            else:
                rep.ok(rule, key, where, "radicand `%s` uses its terms directly" % u(rad)[:70])
