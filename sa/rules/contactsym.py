"""Algebraic evaluation of one generic iteration of the triangle-fan loop of compute_contact_force (R-CONTACTFORCE).

Values are terms; sums and products are flattened and sorted (commutative, associative), subtraction is addition of a negation, numeric factors are
folded.  The corners of the current triangle are ('corner', k) whether written `polygon[triangle][k]`, `polygon[triangle[k]]` or through locals;
buffers that are filled in pieces (`com[:3] = c; com[3] = 1.0`) are tracked cell-wise.  The rule compares the terms that are accumulated with the
terms the quadrature must accumulate — not the statements that build them."""
import ast
from fractions import Fraction

from ..core.astutil import u, call_name, const, assign_pairs


def num(x):
    return ("num", Fraction(x).limit_denominator(10 ** 9))


def add(*ts):
    flat, c = [], Fraction(0)
    for t in ts:
        if t[0] == "add":
            flat.extend(t[1])
        elif t[0] == "num":
            c += t[1]
        else:
            flat.append(t)
    if c != 0:
        flat.append(("num", c))
    if not flat:
        return ("num", Fraction(0))
    if len(flat) == 1:
        return flat[0]
    return ("add", tuple(sorted(flat, key=repr)))


def neg(t):
    if t[0] == "neg":
        return t[1]
    if t[0] == "num":
        return ("num", -t[1])
    if t[0] == "add":
        return add(*[neg(x) for x in t[1]])
    return ("neg", t)


def mul(*ts):
    flat, c, sign = [], Fraction(1), 1
    for t in ts:
        if t[0] == "mul":
            ts2 = t[1]
        else:
            ts2 = (t,)
        for x in ts2:
            if x[0] == "num":
                c *= x[1]
            elif x[0] == "neg":
                sign = -sign
                flat.append(x[1])
            else:
                flat.append(x)
    c *= sign
    if c == 0:
        return ("num", Fraction(0))
    if c != 1:
        flat.append(("num", c))
    if not flat:
        return ("num", Fraction(1))
    if len(flat) == 1:
        return flat[0]
    return ("mul", tuple(sorted(flat, key=repr)))


def div(a, b):
    if b[0] == "num" and b[1] != 0:
        return mul(a, ("num", 1 / b[1]))
    return ("div", a, b)


class Eval:
    def __init__(self, polygon, loopvar):
        self.polygon, self.loopvar = polygon, loopvar
        self.env = {}
        self.cells = {}        # buffer name -> {slice text: term}
        self.acc = {}          # accumulator name -> [terms added in the iteration]
        self.notes = []

    def ev(self, e):
        if isinstance(e, ast.Constant) and isinstance(e.value, (int, float)) and not isinstance(e.value, bool):
            return num(e.value)
        if isinstance(e, ast.Name):
            if e.id in self.env:
                return self.env[e.id]
            if e.id in self.cells:
                return self.buffer(e.id)
            return ("sym", e.id)
        if isinstance(e, ast.Attribute):
            if e.attr == "T":
                return ("T", self.ev(e.value))
            return ("sym", u(e))
        if isinstance(e, ast.UnaryOp) and isinstance(e.op, ast.USub):
            return neg(self.ev(e.operand))
        if isinstance(e, ast.BinOp):
            a, b = self.ev(e.left), self.ev(e.right)
            if isinstance(e.op, ast.Add):
                return add(a, b)
            if isinstance(e.op, ast.Sub):
                return add(a, neg(b))
            if isinstance(e.op, ast.Mult):
                return mul(a, b)
            if isinstance(e.op, ast.Div):
                return div(a, b)
            return ("op", type(e.op).__name__, a, b)
        if isinstance(e, (ast.Tuple, ast.List)):
            return ("tuple", tuple(self.ev(x) for x in e.elts))
        if isinstance(e, ast.Subscript):
            # a piece of a buffer that was stored under exactly that slice
            if isinstance(e.value, ast.Name) and e.value.id in self.cells and u(e.slice) in self.cells[e.value.id]:
                return self.cells[e.value.id][u(e.slice)]
            base = self.ev(e.value)
            k = const(e.slice)
            ix = ("num", Fraction(k)) if isinstance(k, int) and not isinstance(k, bool) else (self.ev(e.slice) if not isinstance(e.slice, ast.Slice) else ("slice", u(e.slice)))
            # corners of the current triangle
            tri = ("sym", self.loopvar)
            poly = ("sym", self.polygon)
            if base == ("idx", poly, tri) and ix[0] == "num":
                return ("corner", int(ix[1]))
            if base == poly and isinstance(ix, tuple) and ix[0] == "idx" and ix[1] == tri and ix[2][0] == "num":
                return ("corner", int(ix[2][1]))
            if base[0] == "tuple" and ix[0] == "num" and 0 <= int(ix[1]) < len(base[1]):
                return base[1][int(ix[1])]
            return ("idx", base, ix)
        if isinstance(e, ast.Call):
            name = (call_name(e) or "")
            short = name.split(".")[-1]
            args = tuple(self.ev(a) for a in e.args)
            if short == "cross" and len(args) == 2:
                return ("cross", args[0], args[1])
            if short == "norm" and len(args) == 1:
                x = args[0]
                if x[0] == "cross":                       # |a x b| = |b x a| = |(-a) x b|
                    ops = tuple(sorted((self.unsigned(x[1]), self.unsigned(x[2])), key=repr))
                    return ("normcross", ops)
                return ("norm", x)
            if short == "sum" and args:
                return ("sum", args[0])
            if short == "dot" and len(args) == 2:
                return ("sum", mul(args[0], args[1]))
            if short == "dot" and isinstance(e.func, ast.Attribute) and len(args) == 1 and not name.startswith("np."):
                return ("sum", mul(self.ev(e.func.value), args[0]))
            if short == "solve" and len(args) == 2:
                return ("solve", args[0], args[1])
            return ("call", short, args)
        return ("unk", u(e)[:40])

    @staticmethod
    def unsigned(t):
        """an edge up to orientation: {i, j} for corner_i - corner_j"""
        if t[0] == "add" and len(t[1]) == 2:
            cs = []
            for x in t[1]:
                y = x[1] if x[0] == "neg" else x
                if y[0] == "corner":
                    cs.append((y[1], x[0] == "neg"))
            if len(cs) == 2 and cs[0][1] != cs[1][1]:
                return ("edge", tuple(sorted(c for c, _ in cs)))
        return t

    def buffer(self, name):
        cells = self.cells[name]
        if ":3" in cells and "3" in cells:
            return ("hom", cells[":3"], cells["3"])
        return ("buf", tuple(sorted(cells.items())))

    def run(self, stmts):
        for st in stmts:
            if isinstance(st, ast.Assign):
                for t, v in assign_pairs(st):
                    val = self.ev(v)
                    if isinstance(t, ast.Name):
                        self.env[t.id] = val
                    elif isinstance(t, ast.Subscript) and isinstance(t.value, ast.Name):
                        self.cells.setdefault(t.value.id, {})[u(t.slice)] = val
                        self.env.pop(t.value.id, None)
            elif isinstance(st, ast.AugAssign) and isinstance(st.target, ast.Name):
                val = self.ev(st.value)
                if isinstance(st.op, ast.Add):
                    self.acc.setdefault(st.target.id, []).append(val)
                elif isinstance(st.op, ast.Div):
                    self.acc.setdefault(st.target.id, []).append(("divided by", val))
                else:
                    self.notes.append("augmented assignment `%s` not modelled" % u(st)[:60])
            elif isinstance(st, (ast.Expr, ast.Assert, ast.Pass)):
                continue
            else:
                self.notes.append("statement `%s` inside the triangle loop not modelled" % type(st).__name__)


def rebuild(t, f):
    """t with f applied bottom-up (f returns a replacement or None), re-normalised"""
    if not isinstance(t, tuple) or not t:
        return t
    r = f(t)
    if r is not None:
        return r
    k = t[0]
    if k == "add":
        return add(*[rebuild(x, f) for x in t[1]])
    if k == "mul":
        return mul(*[rebuild(x, f) for x in t[1]])
    if k == "neg":
        return neg(rebuild(t[1], f))
    if k == "normcross":
        a, b = (rebuild(x, f) for x in t[1])
        return ("normcross", tuple(sorted((Eval.unsigned(a), Eval.unsigned(b)), key=repr)))
    if k == "edge":
        return t
    if k in ("num", "sym", "corner", "slice"):
        return t
    return tuple(rebuild(x, f) if isinstance(x, tuple) else x for x in t)


def polygon_vertices(t, polygon, out=None):
    """distinct terms polygon[<index>] inside t"""
    out = out if out is not None else []
    if isinstance(t, tuple) and t:
        if t[0] == "idx" and t[1] == ("sym", polygon) and t[2][0] != "slice":
            if t not in out:
                out.append(t)
            return out
        for x in t:
            if isinstance(x, tuple):
                polygon_vertices(x, polygon, out)
    return out


def show(t):
    if not isinstance(t, tuple):
        return str(t)
    k = t[0]
    if k == "num":
        return str(float(t[1])) if t[1].denominator != 1 else str(int(t[1]))
    if k == "sym":
        return t[1]
    if k == "corner":
        return "v%d" % t[1]
    if k == "add":
        return "(" + " + ".join(show(x) for x in t[1]) + ")"
    if k == "mul":
        return " * ".join(show(x) for x in t[1])
    if k == "neg":
        return "-" + show(t[1])
    if k == "normcross":
        return "|%s x %s|" % (show(t[1][0]), show(t[1][1]))
    if k == "edge":
        return "e%d%d" % t[1]
    if k == "sum":
        return "sum(%s)" % show(t[1])
    if k == "solve":
        return "solve(%s, %s)" % (show(t[1]), show(t[2]))
    if k == "hom":
        return "[%s; %s]" % (show(t[1]), show(t[2]))
    if k == "idx":
        return "%s[%s]" % (show(t[1]), show(t[2]))
    if k == "call":
        return "%s(%s)" % (t[1], ", ".join(show(x) for x in t[2]))
    if k == "T":
        return show(t[1]) + ".T"
    if k == "tuple":
        return "(%s)" % ", ".join(show(x) for x in t[1])
    return str(t)[:60]
