"""R-LOOP: every loop in scope has a recognised exit discipline, and the anchor loops keep the class confirmed by reading."""
import ast

from ..engines import loops as E4

# anchor loops confirmed by reading (DESIGN.md §3/E4): function key -> [class of its while-loops in source order]
EXPECTED = {
    "distance3d.gjk._gjk_jolt::gjk_intersection_jolt": ["PROGRESS"],
    "distance3d.gjk._gjk_jolt::gjk_distance_jolt": ["PROGRESS"],
    "distance3d.gjk._gjk_jolt::gjk_distance_jolt_iterations": ["PROGRESS"],
    "distance3d.gjk._gjk_original::gjk_distance_original": ["PROGRESS"],
    "distance3d.gjk._gjk_nesterov_accelerated::gjk_nesterov_accelerated": ["CAP"],
    "distance3d.gjk._gjk_nesterov_accelerated_primitives::run_gjk_nesterov_accelerated": ["CAP"],
    "distance3d.mpr::_discover_portal": ["CAP"],
    "distance3d.mpr::_refine_portal": ["TOLERANCE"],
    "distance3d.mpr::_find_penetration_info": ["CAP"],
    "distance3d.mesh::hill_climb_mesh_extreme": ["PROGRESS"],
    "distance3d.epa::LooseEdges.find_triangles_facing_point_and_store_loose_edges": ["STRUCT"],
    "distance3d.epa::LooseEdges.add_removed_triangles_edges_to_list": ["CAP"],
    "distance3d.aabb_tree::insert_leaf": ["STRUCT"],
    "distance3d.aabb_tree::fix_upward_tree": ["STRUCT"],
    "distance3d.aabb_tree::query_overlap": ["STRUCT"],
    "distance3d.aabb_tree::query_overlap_of_other_tree": ["STRUCT"],
    "distance3d.distance._triangle::_line_to_triangle": ["CAP"],
    "distance3d.distance._triangle::triangle_to_triangle": ["CAP", "CAP"],
    "distance3d.distance._triangle::triangle_to_rectangle": ["CAP"],
}
# for-loops that carry an iteration cap of an iterative solver (their range bound must stay a cap)
CAPPED_FOR = {
    "distance3d.gjk._gjk_libccd::_gjk": "max_iterations",
    "distance3d.epa::epa": "max_iter",
}


def r_loop(idx, rep, modules, rule="R-LOOP", floor=5, allowed=("CAP", "STRUCT", "PROGRESS", "TOLERANCE")):
    rep.rule(rule, "every loop has a recognised exit discipline (CAP / STRUCT / PROGRESS / TOLERANCE); anchor loops keep the "
                   "class confirmed by reading; an unclassified loop is a violation", floor=floor)
    table = []
    for mname in modules:
        m = idx.module(mname)
        for f in m.functions.values():
            if "<locals>" in f.qualname:
                continue
            ls = E4.loops_of(f)
            whiles = [l for l in ls if isinstance(l, ast.While)]
            exp = EXPECTED.get(f.key)
            wi = 0
            for k, l in enumerate(ls):
                cls_, why = E4.classify(l, f, idx)
                kind = "while" if isinstance(l, ast.While) else "for"
                key = "%s|%s-loop #%d" % (f.key, kind, k)
                where = "%s:%d" % (m.relpath, l.lineno)
                table.append({"loop": key, "where": where, "class": cls_, "evidence": why})
                if cls_ is None:
                    rep.bad(rule, key, where, "loop has no recognised exit discipline: %s (a removed cap, a skipped increment or a weakened progress test makes the query hang)" % why)
                    if kind == "while":
                        wi += 1
                    continue
                if cls_ not in allowed:
                    rep.bad(rule, key, where, "loop is %s (%s) but this scope only admits %s" % (cls_, why, list(allowed)))
                    if kind == "while":
                        wi += 1
                    continue
                if kind == "while":
                    if exp is not None and len(whiles) == len(exp) and exp[wi] != cls_:
                        rep.bad(rule, key, where, "loop was confirmed as %s but now classifies as %s (%s): its exit discipline was weakened" % (exp[wi], cls_, why))
                    else:
                        rep.ok(rule, key, where, "%s: %s" % (cls_, why))
                    wi += 1
                else:
                    capname = CAPPED_FOR.get(f.key)
                    if capname and k == 0:
                        ok = isinstance(l.iter, ast.Call) and any(capname in ast.unparse(a) for a in l.iter.args)
                        rep.check(ok, rule, key, where, "the solver's main loop is no longer `for ... in range(%s)`" % capname, "%s: %s" % (cls_, why))
                    else:
                        rep.ok(rule, key, where, "%s: %s" % (cls_, why))
            if exp is not None and len(whiles) != len(exp):
                # the function was restructured: the confirmed classes can no longer be lined up with its loops, so each loop only has
                # to show a recognised exit discipline of its own (a loop without one is still a violation above)
                rep.note("%s: %d while-loop(s) where %d were confirmed by reading; judged by the generic classes only" % (f.key, len(whiles), len(exp)))
    for key in EXPECTED:
        mod = key.split("::")[0]
        if mod in modules:
            idx.func(key)   # a vanished anchor is an analysis error
    rep.extra.setdefault("loop_table", []).extend(table)
    return table
