"""C01 — GJK distance: feasible, consistent, optimal (structural clauses)."""
from . import scopes
from ..core.report import DOMAIN_D
from ..rules import colliders, mink, simplex, loops, buffers, clip, runmin, unpack, ericson, misc2

J = "distance3d.gjk._gjk_jolt"


def run(idx, rep, tier):
    rep.set_scope(scopes.scope(idx, "C01"))
    rep.explanation = (
        "Structural necessary conditions of the Jolt-style GJK distance query: support points are A-B support points and "
        "collider pairs keep their order (R-MINK); the parallel arrays Y/P/Q are stored row-wise together from (p-q, p, q) "
        "and compacted together (R-PAR, R-COMPACT); closest points apply the weights of (Y[0..k]) to P[0..k] and Q[0..k] in "
        "order (R-BARY); sub-solver feature masks are remapped to the right vertices for every mask (R-BITMAP), returned "
        "masks name the vertices the point is built from (R-MASKPOINT), the plane tests guard the face they test (R-PLANES), "
        "the k-point solver gets Y[0..k-1] (R-SOLVERDISPATCH); loop discipline (R-LOOP); the early `Clipped` exit requires the new support point behind the origin plane (R-CLIPGUARD). |a-b| = d within 1e-5 L, optimality "
        "and d>0 <=> separated are NOT decided.")
    rep.assumptions = DOMAIN_D
    mink.r_mink(idx, rep, modules=[J], floor=2)
    mink.r_par(idx, rep, floor=3)
    mink.r_bary(idx, rep)
    simplex.r_bitmap(idx, rep)
    simplex.r_maskpoint(idx, rep)
    simplex.r_planes(idx, rep)
    simplex.r_windingdecision(idx, rep)
    simplex.r_solverdispatch(idx, rep)
    simplex.r_lineweights(idx, rep)
    simplex.r_weightrole(idx, rep)
    buffers.r_compact(idx, rep, modules={J}, floor=2)
    loops.r_loop(idx, rep, [J], floor=2)
    clip.r_clipguard(idx, rep)
    runmin.r_runmin(idx, rep, [J], floor=2)
    ericson.r_ericson(idx, rep)
    misc2.r_dupcond(idx, rep, [m.name for m in idx.lib_modules()], floor=3)
    colliders.r_coherence(idx, rep, relevant_to="support_function")      # the colliders of the statement include colliders that were moved with update_pose: a stale attribute changes the support mapping the solver sees
    misc2.r_adjacency(idx, rep)      # mesh colliders answer support queries by hill climbing over this adjacency
    unpack.r_unpack(idx, rep, floor=15)
