"""C19 — narrow-phase queries terminate (exit discipline only)."""
from . import scopes
from ..core.report import DOMAIN_D
from ..rules import generic2, loops, safediv, unpack, misc2, defined
from .common import NARROW_PHASE, lib_module_names


def run(idx, rep, tier):
    rep.set_scope(scopes.scope(idx, "C19"))
    rep.explanation = (
        "Engine E4 classifies every loop of the narrow-phase modules (all GJK flavours, EPA, MPR, mesh hill climbing, "
        "self-collision): CAP (counter vs bound advanced on every path; continue paths must clear a one-way flag), STRUCT "
        "(finite container / pop-before-push stack / link walk / shrink scan), PROGRESS (non-strict non-improvement exit "
        "with the carried value updated, followed into the state-returning helper), TOLERANCE (exit test evaluated every "
        "iteration; termination NOT proved: mpr._refine_portal). Anchor loops must keep the class confirmed by reading. "
        "R-SAFEDIV: in MPR, the closed-form support functions and norm_vector every division by a magnitude (norm, sqrt, sum, a callee's distance) sits on the non-zero side of a test of that magnitude, so touching / coincident placements do not produce NaN; mpr._contact_position's fallback weights are UNKNOWN. The bound of 1000 support evaluations and finiteness of the GJK/EPA outputs are not decided.")
    rep.assumptions = DOMAIN_D
    mods = lib_module_names(idx)        # every loop reachable from a narrow-phase entry point (scope filter), wherever it lives
    loops.r_loop(idx, rep, mods, floor=14)
    defined.r_defined(idx, rep, mods, floor=20)      # a read of an unassigned local is an exception on that path
    safediv.r_safediv(idx, rep, floor=4)
    misc2.r_basisguard(idx, rep)
    misc2.r_dupcond(idx, rep, [m.name for m in idx.lib_modules()], floor=3)
    generic2.r_residualzero(idx, rep, [m.name for m in idx.lib_modules()], floor=0)      # expected count zero today; its mutant in the self-test is the positive example
    generic2.r_indextruth(idx, rep, [m.name for m in idx.lib_modules()], floor=25)
    unpack.r_unpack(idx, rep, floor=42)
