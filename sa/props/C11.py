"""C11 — primitive distance functions: global minimum (structural clauses)."""
from . import scopes
from ..core.report import DOMAIN_D
from ..rules import generic2, partition, features, degree, roles, mirror, runmin, unpack, sides, onsegment, ericson, misc2, siblings


def run(idx, rep, tier):
    rep.set_scope(scopes.scope(idx, "C11"))
    rep.explanation = (
        "R-FEATURES: the candidate enumerations the optimality arguments rest on are complete (3 edges per triangle through "
        "the i0/i1 wrap-around, 2x2 rectangle edges, 2x3 box faces, every rectangle vertex) and candidate loops are cut short "
        "only under `dist <= epsilon`. R-CLAMPCONVEX: 'solve the infinite line, clamp the parameter, re-query the end point' "
        "is used only against convex primitives (table from the shapes' definitions; a circle is not convex: known finding). "
        "R-MIRROR / R-CASEDISPATCH / R-TOURNAMENT / R-BOXFACE: the line-to-box case analysis is symmetric under the axis swap, dispatches every sign pattern of the direction to the case that moves along exactly the positive axes, and picks the exit face by a consistent tournament. R-TRIPLE: best-of blocks adopt distance and points together. R-DEGREE (engine E3): closed forms are dimensionally "
        "homogeneous (this is what exposed the line_to_circle transcription error). Optimality itself and the 20-round "
        "alternating projection of disk_to_disk are NOT decided.")
    rep.assumptions = DOMAIN_D + ["primitive domain P"]
    features.r_features(idx, rep)
    features.r_clampconvex(idx, rep)
    roles.r_triple(idx, rep)
    runmin.r_runmin(idx, rep, [x.name for x in idx.lib_modules() if x.name.startswith("distance3d.distance")], floor=6)
    sides.r_sides(idx, rep, [x.name for x in idx.lib_modules() if x.name.startswith("distance3d.distance")], floor=25)
    mirror.r_mirror(idx, rep)
    mirror.r_casedispatch(idx, rep)
    mirror.r_tournament(idx, rep)
    mirror.r_boxface(idx, rep)
    mods = [x.name for x in idx.lib_modules() if x.name.startswith("distance3d.distance")]
    degree.r_degree(idx, rep, modules=mods, floor=20)
    onsegment.r_halfsize(idx, rep, [x.name for x in idx.lib_modules() if x.name.startswith("distance3d.distance")], floor=5)
    ericson.r_ericson(idx, rep)
    partition.r_isolated(idx, rep, [m.name for m in idx.lib_modules() if m.name.startswith('distance3d.distance')], floor=1)
    misc2.r_dupcond(idx, rep, [m.name for m in idx.lib_modules()], floor=3)
    generic2.r_rimpoint(idx, rep, [m.name for m in idx.lib_modules() if m.name.startswith("distance3d.distance")], floor=4)      # centre + radius * v is on the circle only for unit v
    onsegment.r_clipsym(idx, rep, [x.name for x in idx.lib_modules() if x.name.startswith("distance3d.distance")], floor=4)
    generic2.r_axispair(idx, rep, [m.name for m in idx.lib_modules()], floor=0)      # one site today; a vectorised test has no component pairs to mis-pair
    siblings.r_segsibling(idx, rep)
    misc2.r_parallelsign(idx, rep, [x.name for x in idx.lib_modules() if x.name.startswith("distance3d.distance")])
    degree.r_tolunit(idx, rep, [x.name for x in idx.lib_modules() if x.name.startswith("distance3d.distance")], floor=8)
    unpack.r_unpack(idx, rep, floor=45)
