"""C18 — simplex solvers return the minimum-norm point (structural clauses)."""
from . import scopes
from ..core.report import DOMAIN_D
from ..rules import simplex, johnson, mink, runmin, unpack, ericson, misc2


def run(idx, rep, tier):
    rep.set_scope(scopes.scope(idx, "C18"))
    rep.explanation = (
        "R-JOHNSONOPT: the test in front of every sub-simplex of the main sub-algorithm expands (predicate methods inlined, De Morgan) to exactly Johnson's optimality condition. R-JOHNSONREC: every cofactor stored into BarycentricCoordinates.d is Johnson's recursion Delta_j(X+j) = sum_i Delta_i(X) y_i.(y_k - y_j), with every factor resolved through local definitions, negations, call-site parameters and results of the other coordinate methods. "
        "Table rules over the two simplex solvers. Jolt: sub-solver masks remapped to the right vertex bits for every "
        "possible mask, by constant evaluation of the integer remap expression (R-BITMAP); returned masks name exactly the "
        "vertices the returned point is built from (R-MASKPOINT); each plane test guards the face it tests with the opposite "
        "vertex as inside reference (R-PLANES); Y[0..k-1] go to the k-point solver and a candidate replaces the incumbent "
        "only under strict < (R-SOLVERDISPATCH). Original GJK backup procedure: every candidate uses the cofactor column of "
        "its own vertex subset (derived from the stores into d), in vertex-list order, guarded on that column, accepted "
        "under strict <, and records its vertex list (R-JOHNSON); all 3/7/15 sub-simplices are compared (R-EXHAUSTIVE). "
        "The 1e-9 accuracy is NOT decided; the fast Johnson path is outside C18.")
    rep.assumptions = DOMAIN_D
    simplex.r_bitmap(idx, rep)
    simplex.r_maskpoint(idx, rep)
    simplex.r_planes(idx, rep)
    simplex.r_windingdecision(idx, rep)
    simplex.r_solverdispatch(idx, rep)
    simplex.r_lineweights(idx, rep)
    johnson.r_johnson(idx, rep)
    johnson.r_johnsonrec(idx, rep)
    johnson.r_johnsonopt(idx, rep)
    runmin.r_runmin(idx, rep, ["distance3d.gjk._gjk_jolt"], floor=2)
    ericson.r_ericson(idx, rep)
    misc2.r_dupcond(idx, rep, [m.name for m in idx.lib_modules()], floor=3)
    johnson.r_cofactorsign(idx, rep)
    unpack.r_unpack(idx, rep, floor=9)
