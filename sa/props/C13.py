"""C13 — point containment predicates (structural clauses)."""
from . import scopes
from ..core.report import DOMAIN_D
from ..rules import colliders, frame, degree, affine, unpack, purity, onsegment, misc2, safediv, partition, generic2
from .common import e2

MODS = {"distance3d.containment_test", "distance3d.utils"}


def run(idx, rep, tier):
    rep.set_scope(scopes.scope(idx, "C13"))
    rep.explanation = (
        "R-CLOSEDSET: inclusion comparisons of the eight predicates are non-strict, exclusion masks strict (closed shapes), "
        "reductions only over axis=1 (element-wise over the batch). R-FRAME (engine E2): world points are brought into the "
        "local frame with the inverse pose (row-vector convention) before they are compared with sizes. R-DEGREE (engine "
        "E3): squared distances are compared with squared sizes. R-AXIS: the distinguished axis agrees with the support "
        "function and the AABB. R-ISOLATED: a case analysis over one scalar (row masks / if-chains against thresholds) does not drop a single threshold value into the fall-through case. The 1e-9 band and agreement with point_to_<shape> on concrete points are NOT decided.")
    rep.assumptions = DOMAIN_D
    colliders.r_closedset(idx, rep)
    colliders.r_axis(idx, rep)
    affine.r_originfree(idx, rep, ["distance3d.containment_test", "distance3d.mesh"], floor=6)
    fr_rets = e2(idx)
    frame.r_frame(idx, rep, fr_rets, modules=MODS, floor=8)
    degree.r_degree(idx, rep, modules=sorted(set(MODS) | {m.name for m in idx.lib_modules() if m.name.startswith("distance3d.distance")}), floor=8)
    purity.r_pureargs(idx, rep, ["distance3d.containment_test", "distance3d.utils"], floor=5)
    onsegment.r_halfsize(idx, rep, ["distance3d.containment_test"] + [x.name for x in idx.lib_modules() if x.name.startswith("distance3d.distance")], floor=3)
    partition.r_isolated(idx, rep, ["distance3d.containment_test"], floor=0)      # no instance today (the predicates clamp with min/max); armed for rewritten clamps, positive example built in
    misc2.r_insidezero(idx, rep)      # containment and point_to_ellipsoid agree on interior points
    misc2.r_dupcond(idx, rep, [m.name for m in idx.lib_modules()], floor=3)
    colliders.r_coherence(idx, rep, relevant_to="support_function")      # the colliders of the statement include colliders that were moved with update_pose: a stale attribute changes the support mapping the solver sees
    safediv.r_sqrtdomain(idx, rep, modules=["distance3d.containment_test"], floor=0, unknown_ceiling=2, sqrt_calls=("np.sqrt", "math.sqrt"))
    unpack.r_unpack(idx, rep, floor=1)
    generic2.r_twosided(idx, rep, ["distance3d.containment_test"], floor=1)      # flat shapes reject points on both sides of their plane
