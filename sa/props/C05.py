"""C05 — AABB tree answers overlap queries exactly, for every insertion history."""
from . import scopes
from ..core.report import DOMAIN_D
from ..rules import generic2, aabbtree, unpack, misc2


def run(idx, rep, tier):
    rep.set_scope(scopes.scope(idx, "C05"))
    rep.explanation = (
        "Static rules over distance3d/aabb_tree.py (ast only, nothing executed): the closed-interval predicate "
        "(R-CLOSED), completeness of both stack traversals (R-TRAVERSE), link/parent consistency and box refit of "
        "insert_leaf / fix_upward_tree (R-LINKS, R-REFIT), parallel-array bookkeeping of the Python wrapper "
        "(R-BOOKKEEP), index space of the insertion order (R-INDEXSPACE), sentinel root guarded before indexing "
        "(R-SENTINEL), de-duplication and argument roles of the query wrappers (R-UNIQUE). These are the invariants "
        "the textbook BVH correctness argument rests on; their sufficiency is not re-proved.")
    rep.assumptions = DOMAIN_D + ["boxes are arrays of shape (3, 2) with lo <= hi"]
    aabbtree.r_closed(idx, rep)
    aabbtree.r_traverse(idx, rep)
    aabbtree.r_links(idx, rep)
    aabbtree.r_sentinel(idx, rep)
    aabbtree.r_bookkeep(idx, rep)
    aabbtree.r_unique(idx, rep)
    misc2.r_dupcond(idx, rep, [m.name for m in idx.lib_modules()], floor=3)
    aabbtree.r_bruteforce(idx, rep)      # the brute-force broad phase is the reference the tree queries are interchangeable with
    generic2.r_indextruth(idx, rep, [m.name for m in idx.lib_modules()], floor=4)
    unpack.r_unpack(idx, rep, floor=4)
    generic2.r_axisuniform(idx, rep, [m.name for m in idx.lib_modules()], floor=0)      # hand-unrolled per-axis box tests treat the axes alike
