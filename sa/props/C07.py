"""C07 — EPA returns the minimum translation vector whenever it reports success (structural clauses)."""
from . import scopes
from ..core.report import DOMAIN_D
from ..rules import generic2, eager, epa, mink, buffers, loops, degree, unpack, misc2
from .common import e1

MODS = ["distance3d.epa"]


def run(idx, rep, tier):
    rep.set_scope(scopes.scope(idx, "C07"))
    rep.explanation = (
        "Static rules over distance3d/epa.py: no read of a NumPy view after its source row was overwritten (R-ALIAS, "
        "engine E1), every face passes normal computation and winding repair before it is selectable and the repair is a "
        "real swap (R-WINDING), Minkowski pairing of the support queries (R-MINK), capacity checks dominate the stores "
        "(R-GUARDSTORE), vertex rows and the normal row of a face are never confused (R-FACEROLE: dimensional inference with rows 0-2 = "
        "length, row 3 = unit normal), the success path returns n*dot(new_point, n) under the convergence test of a loop capped by "
        "max_iter (R-MTV), loop discipline (R-LOOP), index discipline around the swap-remove containers (R-SWAPREMOVE: no index looked up before a loop that removes; a scan that removes at its own position re-examines it). Minimality of the vector and the residual gap are not decided.")
    rep.assumptions = DOMAIN_D + ["the simplex handed over by GJK has four affinely independent points (any winding)"]
    it = e1(idx)
    scope = set(MODS) if tier == "quick" else None
    eager.r_alias(idx, rep, it, modules=set(MODS), floor=0)
    if tier == "thorough":
        # R-ALIAS matches elsewhere are printed as notes only: mpr._swap_vertices was triaged as behaviourally harmless
        for func, node, txt, view in it.alias_events:
            if func.module.name not in MODS:
                rep.note("R-ALIAS match outside C07's scope (not a verdict): %s:%d %s" % (func.module.relpath, node.lineno, txt))
    epa.r_winding(idx, rep)
    epa.r_mtv(idx, rep)
    mink.r_mink(idx, rep, modules=["distance3d.epa"], floor=2)
    buffers.r_guardstore(idx, rep, modules=set(MODS), floor=2)
    loops.r_loop(idx, rep, MODS, floor=3, allowed=("CAP", "STRUCT"))
    misc2.r_adjacency(idx, rep)      # epa queries collider.support_function: a mesh support over an incomplete adjacency returns a non-extreme vertex, EPA then converges early
    # R-FACEROLE: rows 0-2 of a face are vertices (degree 1), row 3 the unit normal (degree 0) wherever a face is read or written
    import ast as _ast
    faces = dict(degree.EPA_FACES)
    f_epa = idx.func("distance3d.epa::epa")
    for st in _ast.walk(f_epa.node):
        if isinstance(st, _ast.Assign) and isinstance(st.targets[0], _ast.Tuple) and isinstance(st.value, _ast.Call) and "find_face_closest_to_origin" in _ast.unparse(st.value.func) \
                and len(st.targets[0].elts) == 2 and isinstance(st.targets[0].elts[1], _ast.Name):
            faces[st.targets[0].elts[1].id] = degree.EPA_FACES["closest_face"]      # whatever the local face row is called
    dg = degree.r_degree(idx, rep, modules=MODS, rule="R-FACEROLE", floor=5, face_arrays=faces)
    from fractions import Fraction
    f = idx.func("distance3d.epa::epa")
    res = dg.analyse(f)
    ok = isinstance(res, tuple) and len(res) == 3 and res[0] == Fraction(1)
    rep.check(ok, "R-FACEROLE", f.key + "|returned vector is a length (normal * distance)", f.where,
              "every returned translation vector must have length degree 1 (unit normal times a distance); inferred degrees %s" % (res,))
    misc2.r_dupcond(idx, rep, [m.name for m in idx.lib_modules()], floor=3)
    generic2.r_definite(idx, rep, [m.name for m in idx.lib_modules()], floor=2)
    epa.r_loudcap(idx, rep)
    epa.r_swapremove(idx, rep)
    degree.r_tolunit(idx, rep, ["distance3d.epa"], floor=1, face_arrays=degree.EPA_FACES)
    unpack.r_unpack(idx, rep, floor=1)
