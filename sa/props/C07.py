"""C07 — EPA returns the minimum translation vector whenever it reports success (structural clauses)."""
from ..core.report import DOMAIN_D
from ..rules import eager, epa, mink, buffers, loops
from .common import e1

MODS = ["distance3d.epa"]


def run(idx, rep, tier):
    rep.explanation = (
        "Static rules over distance3d/epa.py: no read of a NumPy view after its source row was overwritten (R-ALIAS, "
        "engine E1), every face passes normal computation and winding repair before it is selectable and the repair is a "
        "real swap (R-WINDING), Minkowski pairing of the support queries (R-MINK), capacity checks dominate the stores "
        "(R-GUARDSTORE), the success path returns n*dot(new_point, n) under the convergence test of a loop capped by "
        "max_iter (R-MTV), loop discipline (R-LOOP). Minimality of the vector and the residual gap are not decided.")
    rep.assumptions = DOMAIN_D + ["the simplex handed over by GJK has four affinely independent points (any winding)"]
    it = e1(idx)
    scope = set(MODS) if tier == "quick" else None
    eager.r_alias(idx, rep, it, modules=set(MODS), floor=0)
    if tier == "thorough":
        # R-ALIAS matches elsewhere are printed as notes only: mpr._swap_vertices was triaged as behaviourally harmless
        for func, node, txt, view in it.alias_events:
            if func.module.name not in MODS:
                rep.note("R-ALIAS match outside C07's scope (not a verdict): %s:%d %s" % (func.module.relpath, node.lineno, txt))
    epa.r_winding(idx, rep)
    epa.r_mtv(idx, rep)
    mink.r_mink(idx, rep, modules=["distance3d.epa", "distance3d.minkowski"], floor=3)
    buffers.r_guardstore(idx, rep, modules=set(MODS), floor=3)
    loops.r_loop(idx, rep, MODS, floor=5, allowed=("CAP", "STRUCT"))
