"""C04 — collider AABBs enclose and are tight (structural clauses; the closed-form extents are NOT decided)."""
from . import scopes
from ..core.report import DOMAIN_D
from ..rules import colliders, frame, degree, hydro, safediv, unpack, purity, onsegment, misc2, aabbtree, generic2
from .common import e2

MODS = {"distance3d.containment", "distance3d.colliders", "distance3d.geometry", "distance3d.utils", "distance3d.mesh"}


def run(idx, rep, tier):
    rep.set_scope(scopes.scope(idx, "C04"))
    rep.explanation = (
        "R-AABBARGS: each collider's aabb() calls the containment function of its own shape and hands every parameter the "
        "attribute stored from the same-named constructor parameter. R-MARGIN(BOX): Margin.aabb subtracts the margin from the "
        "lower and adds it to the upper bounds of the inner box. R-AXIS: the distinguished axis index agrees across support, "
        "AABB, containment test and collider methods. R-FRAME / R-FRAMERET (engine E2): all *_aabb functions and collider "
        "aabb() methods are frame consistent and return world-frame bounds. R-WORLDAABB: RigidBody.aabb must apply "
        "body2origin_. R-SQRTDOMAIN: the radicands of the closed-form extents (1 - c^2 of a rotation entry) are clamped at 0, so a pose that is orthonormal only to one ulp cannot produce a NaN box. R-ROUNDTRIP: a radicand that vanishes for axis-aligned poses is not fed by a term recovered through cancellation ((p + h*axis) - p), whose rounding the square root would amplify beyond the tightness tolerance. R-INVALIDATE: RigidBody methods that reassign vertices / pose data reset the caches aabb() reads. R-DEGREE (engine E3): every extent is homogeneous of degree 1. Enclosure and tightness of the closed "
        "forms (e.g. the rotated-ellipsoid extent) are numerical and NOT decided.")
    rep.assumptions = DOMAIN_D
    colliders.r_aabbargs(idx, rep)
    colliders.r_margin(idx, rep, floor=1)
    colliders.r_axis(idx, rep, floor=3)
    fr_rets = e2(idx)
    wide = {m.name for m in idx.lib_modules() if "hydroelastic" not in m.name} | {"distance3d.hydroelastic_contact._rigid_body", "distance3d.hydroelastic_contact._mesh_processing"}
    frame.r_frame(idx, rep, fr_rets, modules=wide, floor=40)
    frame.r_frame_contracts(idx, rep, fr_rets, ("aabb",), floor=8, unknown_ceiling=8)
    frame.r_worldaabb(idx, rep)
    colliders.r_coherence(idx, rep, relevant_to="aabb")      # 'every collider' includes colliders that were moved with update_pose
    colliders.r_stalekey(idx, rep)
    safediv.r_sqrtdomain(idx, rep, modules=["distance3d.containment"], floor=2, unknown_ceiling=2, sqrt_calls=("np.sqrt", "math.sqrt"))
    safediv.r_roundtrip(idx, rep, modules=["distance3d.containment"], floor=1)
    hydro.r_invalidate(idx, rep, relevant_to="aabb", floor=2)      # RigidBody.aabb() is the root box of a cached tree
    degree.r_degree(idx, rep, modules=sorted(MODS), floor=20)
    purity.r_pureargs(idx, rep, ["distance3d.containment", "distance3d.colliders", "distance3d.utils", "distance3d.hydroelastic_contact._mesh_processing", "distance3d.hydroelastic_contact._rigid_body"], floor=10)
    onsegment.r_halfsize(idx, rep, ["distance3d.containment", "distance3d.colliders"], floor=2)
    misc2.r_dupcond(idx, rep, [m.name for m in idx.lib_modules()], floor=3)
    aabbtree.r_links(idx, rep)      # RigidBody.aabb() is the root box of its AabbTree: links + refit decide that it is the union of the leaves
    unpack.r_unpack(idx, rep, floor=7)
    generic2.r_axisscale(idx, rep, [m.name for m in idx.lib_modules()], floor=0)      # box vertices / AABB of a rotated box with unequal sizes
