"""C16 — hydroelastic forces: action-reaction, symmetry, frames (structural clauses)."""
from . import scopes
from ..core.report import DOMAIN_D
from ..rules import aabbtree, generic2, eager, hydro, frame, sides, unpack, misc2
from .common import e1, e2

HY = "distance3d.hydroelastic_contact."


def run(idx, rep, tier):
    rep.set_scope(scopes.scope(idx, "C16"))
    rep.explanation = (
        "R-REACTION: the force part of wrench12 is the syntactic negation of wrench21's, torques use each body's own centre "
        "of mass with the matching sign, and the (wrench12, wrench21) order is preserved through _transform_wrenches, "
        "accumulate_wrenches and contact_forces. R-ATTR (engine E1): every attribute read on a receiver of known class "
        "resolves. R-INVALIDATE: RigidBody methods that reassign a source attribute reset every dependent cache. "
        "R-SAMEPREDICATE: tree-based and brute-force broad phase take (body1, body2) in the same order, bind the same "
        "triple and both reach aabb_overlap. R-SHAREDPOSE: express_in stores a copy of the other body's pose. R-FRAME (engine E2, incl. the wrench rule taken from adjoint_from_transform's "
        "docstring) over the hydroelastic package. The 5% discretisation statements are not decided.")
    rep.assumptions = DOMAIN_D
    it = e1(idx)
    hydro.r_reaction(idx, rep)
    hydro.r_invalidate(idx, rep)
    hydro.r_samepredicate(idx, rep)
    hydro.r_sharedpose(idx, rep)
    sides.r_sides(idx, rep, [m.name for m in idx.lib_modules() if "hydroelastic" in m.name], floor=10)
    HYM = {m.name for m in idx.lib_modules() if "hydroelastic" in m.name} | {"distance3d.utils"}
    frame.r_frame(idx, rep, e2(idx), modules=HYM, floor=20)
    mods = None        # the property scope (sa/props/scopes.py) selects the functions
    eager.r_attr(idx, rep, it, modules=mods, floor=10)
    misc2.r_dupcond(idx, rep, [m.name for m in idx.lib_modules()], floor=3)
    aabbtree.r_bruteforce(idx, rep)      # the brute-force broad phase is the reference the tree queries are interchangeable with
    generic2.r_indextruth(idx, rep, [m.name for m in idx.lib_modules()], floor=15)
    misc2.r_stiffness(idx, rep)
    misc2.r_stiffness_chain(idx, rep)
    hydro.r_contactforce(idx, rep)
    hydro.r_allfaces(idx, rep)
    hydro.r_hpcover(idx, rep)      # a polygon that is not clipped by one half-plane leaves its tetrahedron and over-estimates the force on one side only
    unpack.r_unpack(idx, rep, floor=14)
    generic2.r_axisuniform(idx, rep, [m.name for m in idx.lib_modules()], floor=0)      # hand-unrolled per-axis box tests treat the axes alike
    generic2.r_distinct(idx, rep, [m.name for m in idx.lib_modules()], floor=0)
