"""C03 — support mappings (structural clauses)."""
from . import scopes
from ..core.report import DOMAIN_D
from ..rules import generic2, colliders, frame, signalign, eager, affine, unpack, purity, onsegment, misc2, loops
from .common import e1, e2

MODS = {"distance3d.geometry", "distance3d.colliders", "distance3d.mesh", "distance3d.utils"}


def run(idx, rep, tier):
    rep.set_scope(scopes.scope(idx, "C03"))
    rep.explanation = (
        "R-FRAME / R-FRAMERET (engine E2): the query direction is taken into the local frame with the transposed rotation, "
        "the local point is brought back with the pose, and support_function / first_vertex / center return world-frame "
        "points on every path. R-SIGNALIGN: path-sensitive sign interpretation of the eight closed-form support functions "
        "(each local component is a non-negative multiple of the same direction component, a constant whose sign the path's "
        "tests justify, or zero; the cone's projection comparison picks the larger). R-MARGIN: inner support + margin * "
        "unit(d), delegation of the other methods. R-AXIS sibling agreement. R-AABBARGS for the support call sites. R-EAGER "
        "for the support call sites (engine E1). R-QUERYSTATE: state written by a query reaches the result only as the start hint of the hill climb. "
        "Extremeness within 1e-9 L and start-independence of the hill climb itself are NOT decided.")
    rep.assumptions = DOMAIN_D
    fr_rets = e2(idx)
    frame.r_frame(idx, rep, fr_rets, modules=MODS, floor=40)
    frame.r_frame_contracts(idx, rep, fr_rets, ("support", "utils"), floor=20, unknown_ceiling=20)
    signalign.r_signalign(idx, rep)
    colliders.r_querystate(idx, rep)
    affine.r_originfree(idx, rep, ["distance3d.mesh", "distance3d.geometry", "distance3d.colliders"], floor=20)
    colliders.r_coherence(idx, rep, relevant_to="support_function")      # 'every collider' includes colliders that were moved with update_pose
    colliders.r_stalekey(idx, rep)
    colliders.r_centerinset(idx, rep)
    colliders.r_margin(idx, rep, floor=3)
    colliders.r_axis(idx, rep)
    colliders.r_aabbargs(idx, rep)
    it = e1(idx)
    eager.r_eager(idx, rep, it, caller_filter=lambda f: f.module.name in ("distance3d.colliders", "distance3d.mesh"), floor=15, unknown_ceiling=2)
    purity.r_pureargs(idx, rep, ["distance3d.colliders", "distance3d.geometry", "distance3d.mesh", "distance3d.utils"], floor=20)
    onsegment.r_halfsize(idx, rep, ["distance3d.geometry", "distance3d.colliders"], floor=2)
    misc2.r_basisguard(idx, rep)
    misc2.r_adjacency(idx, rep)
    misc2.r_dupcond(idx, rep, [m.name for m in idx.lib_modules()], floor=3)
    generic2.r_residualzero(idx, rep, [m.name for m in idx.lib_modules()], floor=0)      # expected count zero today; its mutant in the self-test is the positive example
    misc2.r_shortcuts(idx, rep)
    unpack.r_unpack(idx, rep, floor=1)
    loops.r_loop(idx, rep, ["distance3d.mesh"], floor=1)      # a step cap on the hill climb returns a vertex that is not extreme on fine meshes
    generic2.r_axisscale(idx, rep, [m.name for m in idx.lib_modules()], floor=0)
