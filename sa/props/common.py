"""Shared helpers for the property modules."""
from ..core.report import DOMAIN_D
from ..rules import eager

_E1 = {}


def e1(idx):
    """One E1 run per Index (all library functions, 3 rounds for call-site hints)."""
    k = id(idx)
    if k not in _E1:
        _E1.clear()
        _E1[k] = eager.collect(idx)
    return _E1[k]


def lib_module_names(idx):
    return [m.name for m in idx.lib_modules()]


NARROW_PHASE = ["distance3d.gjk._gjk_jolt", "distance3d.gjk._gjk_original", "distance3d.gjk._gjk_libccd",
                "distance3d.gjk._gjk_nesterov_accelerated", "distance3d.gjk._gjk_nesterov_accelerated_primitives",
                "distance3d.gjk", "distance3d.mpr", "distance3d.epa", "distance3d.minkowski", "distance3d.mesh",
                "distance3d.self_collision", "distance3d.colliders", "distance3d.geometry", "distance3d.utils"]
