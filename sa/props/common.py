"""Shared helpers for the property modules."""
from ..core.report import DOMAIN_D
from ..rules import eager

def e1(idx):
    """One E1 run per Index (all library functions, 3 rounds for call-site hints); cached ON the index object."""
    if not hasattr(idx, "_e1_cache"):
        idx._e1_cache = eager.collect(idx)
    return idx._e1_cache


def lib_module_names(idx):
    return [m.name for m in idx.lib_modules()]


NARROW_PHASE = ["distance3d.gjk._gjk_jolt", "distance3d.gjk._gjk_original", "distance3d.gjk._gjk_libccd",
                "distance3d.gjk._gjk_nesterov_accelerated", "distance3d.gjk._gjk_nesterov_accelerated_primitives",
                "distance3d.gjk", "distance3d.mpr", "distance3d.epa", "distance3d.minkowski", "distance3d.mesh",
                "distance3d.self_collision", "distance3d.colliders", "distance3d.geometry", "distance3d.utils"]

def e2(idx):
    from ..rules import frame
    if not hasattr(idx, "_e2_cache"):
        idx._e2_cache = frame.run_engine(idx, None)
    return idx._e2_cache
