"""C14 — a collider after update_pose behaves like a freshly built one at that pose (structural clauses)."""
from . import scopes
from ..core.report import DOMAIN_D
from ..rules import eager, colliders, unpack, purity, misc2
from .common import e1

MODS = {"distance3d.colliders", "distance3d.mesh"}


def run(idx, rep, tier):
    # the property is observed through queries: the functions that are handed a collider and read its state belong to the scope too
    QUERY_MODS = [m.name for m in idx.lib_modules() if m.name.startswith(("distance3d.gjk", "distance3d.mpr", "distance3d.epa", "distance3d.broad_phase",
                                                                             "distance3d.self_collision", "distance3d.colliders", "distance3d.mesh"))]
    sc = dict(scopes.scope(idx, "C14"))
    sc.update(purity.collider_readers(idx, QUERY_MODS))
    rep.set_scope(sc)
    rep.explanation = (
        "R-COHERENCE: per class with a non-raising update_pose, every attribute whose constructor value depends on the "
        "pose-carrying constructor parameters is refreshed (stored, recomputed with the constructor's own expression, or "
        "delegated). Pose-independent attributes are not reassigned by update_pose. R-QUERYSTATE: query-written state is only a search hint. R-UNTOUCHED: no query function modifies the state of a collider it is handed, directly or through an aliasing name (np.asarray, views). R-ROUNDTRIP: pose-less shapes read each attribute from the pose slot that collider2origin writes. "
        "R-EAGER (engine E1, abstract interpretation of array ndim/dtype/layout with a join over every assignment of each "
        "attribute): every call from a collider method into a compiled function with an explicit signature is accepted for "
        "all values the attributes can hold after the constructor or update_pose with a C-contiguous pose. "
        "Numerical equality of query results is not decided.")
    rep.assumptions = DOMAIN_D + ["poses handed to update_pose are C-contiguous float64 4x4 arrays (fresh or one item of a stack)"]
    it = e1(idx)
    colliders.r_coherence(idx, rep)
    colliders.r_stalekey(idx, rep)
    colliders.r_roundtrip(idx, rep)
    colliders.r_querystate(idx, rep)
    eager.r_eager(idx, rep, it, caller_filter=lambda f: f.module.name in MODS, floor=15, unknown_ceiling=2)
    purity.r_pureargs(idx, rep, ["distance3d.colliders", "distance3d.geometry", "distance3d.mesh", "distance3d.utils"], floor=20)
    purity.r_untouched(idx, rep, QUERY_MODS, floor=6)
    misc2.r_adjacency(idx, rep)
    misc2.r_dupcond(idx, rep, [m.name for m in idx.lib_modules()], floor=3)
    misc2.r_shortcuts(idx, rep)
    unpack.r_unpack(idx, rep, floor=2)
