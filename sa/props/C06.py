"""C06 — BVH + narrow phase = brute force (structural, thin)."""
from . import scopes
from ..core.report import DOMAIN_D
from ..rules import generic2, bvh, aabbtree, colliders, unpack, misc2


def run(idx, rep, tier):
    rep.set_scope(scopes.scope(idx, "C06"))
    rep.explanation = (
        "R-UPDATEORDER: update_collider_poses rebuilds a fresh tree, visits all colliders, looks the pose up to 'origin' (as "
        "_make_collider does), calls update_pose BEFORE aabb() and inserts with payload (frame, collider). R-PAYLOAD: the "
        "payload is read as written; pair[0] indexes this tree and pair[1] the other; self-pairs skipped only for equal "
        "indices; candidates removed only through the whitelist. R-WHITELIST: detect / detect_any visit every collider, filter "
        "only by the querying frame's whitelist, run the narrow phase on every candidate, mark both frames / return on the "
        "first hit. Transitively the AABB-tree invariants (C05 rules) and update_pose coherence (C14's R-COHERENCE). Equality "
        "with an all-pairs oracle on concrete robots and URDF parsing are NOT decided.")
    rep.assumptions = DOMAIN_D + ["one collider per frame (colliders_ is a dict keyed by frame)"]
    bvh.r_updateorder(idx, rep)
    bvh.r_payload(idx, rep)
    bvh.r_whitelist(idx, rep)
    aabbtree.r_closed(idx, rep)
    aabbtree.r_traverse(idx, rep)
    aabbtree.r_links(idx, rep)
    aabbtree.r_sentinel(idx, rep)
    aabbtree.r_bookkeep(idx, rep)
    aabbtree.r_unique(idx, rep)
    colliders.r_coherence(idx, rep, relevant_to="aabb")      # only what the broad phase reads: the pose and the attributes aabb() uses
    misc2.r_dupcond(idx, rep, [m.name for m in idx.lib_modules()], floor=3)
    aabbtree.r_bruteforce(idx, rep)      # the brute-force broad phase is the reference the tree queries are interchangeable with
    generic2.r_indextruth(idx, rep, [m.name for m in idx.lib_modules()], floor=10)
    unpack.r_unpack(idx, rep, floor=6)
    generic2.r_axisuniform(idx, rep, [m.name for m in idx.lib_modules()], floor=0)      # hand-unrolled per-axis box tests treat the axes alike
