"""C15 — hydroelastic contact polygons (structural clauses)."""
from . import scopes
from ..core.report import DOMAIN_D
from .common import e2
from ..rules import frame, generic2, buffers, hydro, sides, unpack, misc2

HY = "distance3d.hydroelastic_contact."
MODS = {HY + "_tetrahedron_intersection", HY + "_halfplanes", HY + "_forces", HY + "_interface", HY + "_barycentric_transform"}


def run(idx, rep, tier):
    rep.set_scope(scopes.scope(idx, "C15"))
    rep.explanation = (
        "R-COMPACT: half-planes / polygon points kept under a condition are written at the running counter so that the "
        "returned buf[:n] holds exactly the kept rows (never an unwritten np.empty row). R-GUARDSTORE: capacity checks "
        "dominate the stores. R-FORCEDIR: force = scalar * contact_plane_hnf[:3]. R-POLYGUARD: fewer than three vertices "
        "means no intersection at every stage; the plane is normalised after the zero-normal test and before its offset is "
        "interpreted. R-INVALIDATE: RigidBody methods that move the vertices reset every cache derived from them (incl. caches filled from outside the class). R-PLANECROSS: the tetrahedron/plane pre-filter is true iff both tetrahedra have vertices strictly on both sides (16-row truth table). Geometry of the polygon (on the plane, inside both tetrahedra, convex) is not decided.")
    rep.assumptions = DOMAIN_D
    mods = MODS
    buffers.r_compact(idx, rep, modules=mods, floor=3 if mods else 8)
    buffers.r_guardstore(idx, rep, modules=mods, floor=0)      # vacuity is guarded by R-BOUNDEDSTORE's floor: a removed check is a VIOLATION there
    buffers.r_boundedstore(idx, rep, modules=mods, floor=2)
    hydro.r_forcedir(idx, rep)
    hydro.r_polyguard(idx, rep)
    hydro.r_planecross(idx, rep)
    hydro.r_planecross_caller(idx, rep)
    sides.r_sides(idx, rep, [m.name for m in idx.lib_modules() if "hydroelastic" in m.name], floor=20)
    hydro.r_invalidate(idx, rep)      # stale per-body caches (tetrahedra points, barycentric transforms) put polygons outside their tetrahedra
    misc2.r_dupcond(idx, rep, [m.name for m in idx.lib_modules()], floor=3)
    generic2.r_indextruth(idx, rep, [m.name for m in idx.lib_modules()], floor=6)
    misc2.r_stiffness(idx, rep)
    misc2.r_stiffness_chain(idx, rep)
    hydro.r_contactforce(idx, rep)
    hydro.r_sharedpose(idx, rep)      # two bodies sharing one pose array: the second query sees a frozen relative pose, polygons leave their tetrahedra
    frame.r_frame(idx, rep, e2(idx), modules={"distance3d.hydroelastic_contact._contact_surface", "distance3d.hydroelastic_contact._tetrahedron_intersection", "distance3d.hydroelastic_contact._interface"}, floor=10)      # contact planes / polygons handed out in the world frame
    hydro.r_allfaces(idx, rep)
    hydro.r_hpcover(idx, rep)      # a polygon that is not clipped by one half-plane leaves its tetrahedron and over-estimates the force on one side only
    misc2.r_hplayout(idx, rep)
    misc2.r_anglesort(idx, rep)
    generic2.r_convexweights(idx, rep, [m.name for m in idx.lib_modules()], floor=1)      # the contact point of coinciding tetrahedra is their potential-weighted centre: inside the tetrahedron only for weights that sum to one
    unpack.r_unpack(idx, rep, floor=6)
    generic2.r_axisuniform(idx, rep, [m.name for m in idx.lib_modules()], floor=0)      # hand-unrolled per-axis box tests treat the axes alike
    generic2.r_distinct(idx, rep, [m.name for m in idx.lib_modules()], floor=0)      # duplicate removal of polygon vertices
