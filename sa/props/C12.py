"""C12 — symmetry, rigid-motion invariance, scaling (structural clauses)."""
from . import scopes
from ..core.report import DOMAIN_D
from ..rules import onsegment, colliders, generic2, frame, degree, mink, roles, affine, unpack, mirror, misc2, safediv
from .common import e2


def run(idx, rep, tier):
    rep.set_scope(scopes.scope(idx, "C12"))
    rep.explanation = (
        "Rigid-motion equivariance is decided structurally by frame consistency (engine E2, R-FRAME): every rotation/pose is "
        "applied to vectors of its source frame, sums/dots/crosses combine one frame, results of pose-taking functions are "
        "returned in the world frame (R-FRAMERET). Scaling is decided by dimensional homogeneity (engine E3, R-DEGREE: every "
        "sum/comparison combines equal length degrees; R-RETDEGREE: returned distances and points have degree 1). Argument "
        "swap: the collider pair keeps its order through every call and support points are A-B (R-MINK); composite distance functions swap callee results back when they "
        "pass the second primitive first (R-ROLE). Returned vectors are affine combinations of positions (R-AFFINE: position weights inferred through +, -, constant factors and, per call site, through private helpers; `centre + absolute point` has weight 2 and moves twice as far as the scene under a translation). A vector component used as a divisor is selected by magnitude, not by signed value (R-SELCOMP: the signed choice changes under a half turn of the scene). Equality of results "
        "on concrete transformed scenes and swap symmetry of leaf formulas are NOT decided.")
    rep.assumptions = DOMAIN_D
    fr_rets = e2(idx)
    hydro = lambda m: "hydroelastic" in m
    mods = [m.name for m in idx.lib_modules() if not hydro(m.name)]
    frame.r_frame(idx, rep, fr_rets, modules=set(mods), floor=150)
    frame.r_frame_contracts(idx, rep, fr_rets, ("support", "aabb", "distance", "utils", "geometry"), floor=30, unknown_ceiling=30)
    dg = degree.r_degree(idx, rep, floor=150, face_arrays=degree.EPA_FACES)
    degree.r_return_degrees(idx, rep, dg)
    mink.r_mink(idx, rep, floor=30)
    roles.r_role(idx, rep)
    roles.r_roleagree(idx, rep)
    affine.r_originfree(idx, rep, ["distance3d.containment_test", "distance3d.containment", "distance3d.mesh", "distance3d.geometry", "distance3d.colliders"] + [x.name for x in idx.lib_modules() if x.name.startswith("distance3d.distance")], floor=100)
    affine.r_affine(idx, rep, [m for m in mods if not any(w in m for w in ('visual', 'plot', 'benchmark', 'urdf', 'io'))], floor=200)      # translation: returned points carry position weight 1
    safediv.r_selected_component(idx, rep)      # a component picked by its SIGNED value depends on how the scene is oriented: not invariant under a half turn
    mirror.r_mirror(idx, rep)
    mirror.r_casedispatch(idx, rep)
    mirror.r_tournament(idx, rep)
    mirror.r_boxface(idx, rep)
    misc2.r_dupcond(idx, rep, [m.name for m in idx.lib_modules()], floor=3)
    generic2.r_rimpoint(idx, rep, [m.name for m in idx.lib_modules() if m.name.startswith("distance3d.distance")], floor=4)      # centre + radius * v is on the circle only for unit v
    onsegment.r_clipsym(idx, rep, [x.name for x in idx.lib_modules() if x.name.startswith("distance3d.distance")], floor=4)
    colliders.r_roundtrip(idx, rep)      # rigid-motion covariance of colliders stored without a pose matrix: update_pose reads the slots collider2origin writes
    generic2.r_axispair(idx, rep, [m.name for m in idx.lib_modules()], floor=0)      # one site today; a vectorised test has no component pairs to mis-pair
    degree.r_tolunit(idx, rep, [m.name for m in idx.lib_modules() if "hydroelastic" not in m.name and "visual" not in m.name and "plot" not in m.name and "benchmark" not in m.name], floor=12, face_arrays=degree.EPA_FACES)
    unpack.r_unpack(idx, rep, floor=88)
    generic2.r_axisscale(idx, rep, [m.name for m in idx.lib_modules()], floor=0)
