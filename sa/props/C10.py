"""C10 — primitive distance functions: feasible, consistent (structural clauses)."""
import ast

from . import scopes
from ..core.report import DOMAIN_D
from ..rules import generic2, partition, roles, loops, eager, degree, frame, mirror, safediv, runmin, onsegment, sides, unpack, purity, ericson, misc2, siblings, affine
from ..engines.signs import Signs, NONNEG, ZERO
from .common import e1, e2

DIST = "distance3d.distance"


def run(idx, rep, tier):
    rep.set_scope(scopes.scope(idx, "C10"))
    rep.explanation = (
        "R-AFFINE: every returned vector is an affine combination of positions (position weight 1) or a direction (0), inferred through +, -, constant factors and per call site through private helpers. R-API: distance3d.distance.__all__ names 34 functions, each bound to a definition. R-NONNEG (sign lattice, engine "
        "signs): the returned distance of every public function is >= 0 by construction (norm / sqrt / abs / 0.0 / a callee's "
        "distance), evaluated with the default flags. R-TRIPLE / R-ROLE / R-ROLEAGREE (role flow): composite functions take "
        "distance and points from ONE sub-query and return the points in the order of the primitives, mapping callee results "
        "through the argument groups of each call. R-ONSEGMENT: points returned as 'closest point on the segment' are start + p*d with p confined to [0,1] / [0,L] on every path (must-analysis with branch refinement). R-CLIPSYM: box / rectangle / cylinder coordinates are clipped to [-h, +h] with h half a size. R-MIRROR: the two halves of the line-to-box case analysis are mirror images under i0<->i1. R-CASEDISPATCH: on all 8 sign patterns of the line direction the case function moves along exactly the positive axes and clamps exactly the zero axes. R-TOURNAMENT: _case_no_zeros hands _box_face the axis that won all its pairwise comparisons. R-BOXFACE: the branches of _box_face are mirror images / verbatim re-uses of each other and every leaf uses one offset per axis in delta, squared distance and stored point. R-SQRTDOMAIN: math.sqrt arguments are >= 0 by construction (no bare differences). R-SELCOMP: a division by a component with a computed index selects a non-zero component first. R-HANG (engine E4): every loop of the package is CAP or STRUCT with literal "
        "or parameter bounds. R-EAGER (engine E1) on the calls into explicitly typed compiled helpers. R-RETDEGREE "
        "(engine E3: returned distance and points have length degree 1). R-FRAME / R-FRAMERET (engine E2) for the functions that evaluate in a local frame (box, cylinder, ellipsoid). "
        "R-INSIDEZERO: point_to_ellipsoid returns (0, point) for interior points under the default flags (distance consistent with the returned point). "
        "Membership of arithmetically constructed leaf points within 1e-9 L, NaN-freedom and 'never raises' beyond "
        "signature conformance are NOT decided.")
    rep.assumptions = DOMAIN_D + ["primitive domain P: unit directions/normals, default epsilon arguments"]
    m = idx.module(DIST)
    rep.rule("R-API", "distance3d.distance.__all__ lists the 34 distance functions and each name resolves to a function definition", floor=34)
    names = m.all or []
    for n in names:
        r = idx.resolve_name(m, n)
        rep.check(bool(r) and r[0] == "func", "R-API", "%s|%s" % (DIST, n), m.relpath, "exported name `%s` does not resolve to a function of the package" % n)
    rep.check(len(names) == 34 and len(set(names)) == 34, "R-API", DIST + "|34 exports", m.relpath, "__all__ has %d entries (%d distinct), the property speaks of 34 functions" % (len(names), len(set(names))))
    sg = Signs(idx)
    rep.rule("R-NONNEG", "the returned distance (position 0) is >= 0 by construction: norm, sqrt, abs, 0.0, max(., 0) or a callee's distance", floor=34)
    for n in names:
        r = idx.resolve_name(m, n)
        if not r or r[0] != "func":
            continue
        f = r[1]
        s = sg.summary(f)
        k = s[0] if isinstance(s, tuple) and s else s
        rep.check(k in (NONNEG, ZERO), "R-NONNEG", "%s|distance >= 0" % f.key, f.where,
                  "the distance returned by %s is not provably non-negative by construction (kinds %s): some return path yields a signed / unconstrained value" % (n, s),
                  str(s))
    roles.r_triple(idx, rep)
    roles.r_role(idx, rep)
    roles.r_roleagree(idx, rep)
    runmin.r_runmin(idx, rep, [x.name for x in idx.lib_modules() if x.name.startswith("distance3d.distance")], floor=6)
    onsegment.r_onsegment(idx, rep, [x.name for x in idx.lib_modules() if x.name.startswith("distance3d.distance")], floor=4)
    onsegment.r_clipsym(idx, rep, [x.name for x in idx.lib_modules() if x.name.startswith("distance3d.distance")], floor=4)
    sides.r_sides(idx, rep, [x.name for x in idx.lib_modules() if x.name.startswith("distance3d.distance")], floor=25)
    mirror.r_mirror(idx, rep)
    mirror.r_casedispatch(idx, rep)
    mirror.r_tournament(idx, rep)
    mirror.r_boxface(idx, rep)
    safediv.r_selected_component(idx, rep)
    misc2.r_insidezero(idx, rep)      # an interior point is its own closest point: the returned distance must be 0 there (consistency of distance and points)
    affine.r_affine(idx, rep, [m.name for m in idx.lib_modules() if m.name.startswith('distance3d.distance')], floor=40)      # closest points are points: position weight 1 through every private helper
    safediv.r_sqrtdomain(idx, rep, modules=["distance3d.distance"], floor=8, unknown_ceiling=8)
    mods = [x.name for x in idx.lib_modules() if x.name.startswith("distance3d.distance")]
    loops.r_loop(idx, rep, mods, rule="R-HANG", floor=12, allowed=("CAP", "STRUCT"))
    it = e1(idx)
    eager.r_eager(idx, rep, it, caller_filter=lambda f: f.module.name.startswith("distance3d.distance"), floor=30, unknown_ceiling=12)
    fr_rets = e2(idx)
    frame.r_frame(idx, rep, fr_rets, modules=set(mods) | {"distance3d.utils"}, floor=25)
    frame.r_frame_contracts(idx, rep, fr_rets, ("distance", "utils"), floor=8, unknown_ceiling=4)
    # only the RETURN degrees belong to C10 (a squared distance or a direction in a point slot breaks |p1-p2| = d); inner
    # inhomogeneities are C11/C12 matter (the fixed line_to_circle error kept its points on the primitives)
    dg, _ = degree.run_engine(idx, mods + ["distance3d.geometry", "distance3d.utils"], None)
    degree.r_return_degrees(idx, rep, dg)
    purity.r_pureargs(idx, rep, [x.name for x in idx.lib_modules() if x.name.startswith("distance3d.distance")] + ["distance3d.utils", "distance3d.geometry"], floor=30)
    onsegment.r_halfsize(idx, rep, [x.name for x in idx.lib_modules() if x.name.startswith("distance3d.distance")], floor=5)
    ericson.r_ericson(idx, rep)
    partition.r_isolated(idx, rep, [m.name for m in idx.lib_modules() if m.name.startswith('distance3d.distance')], floor=1)
    misc2.r_dupcond(idx, rep, [m.name for m in idx.lib_modules()], floor=3)
    generic2.r_rimpoint(idx, rep, [m.name for m in idx.lib_modules() if m.name.startswith("distance3d.distance")], floor=4)      # centre + radius * v is on the circle only for unit v
    generic2.r_axispair(idx, rep, [m.name for m in idx.lib_modules()], floor=0)      # one site today; a vectorised test has no component pairs to mis-pair
    generic2.r_definite(idx, rep, [m.name for m in idx.lib_modules()], floor=2)
    siblings.r_segsibling(idx, rep)
    misc2.r_parallelsign(idx, rep, [x.name for x in idx.lib_modules() if x.name.startswith("distance3d.distance")])
    degree.r_tolunit(idx, rep, [x.name for x in idx.lib_modules() if x.name.startswith("distance3d.distance")], floor=8)
    unpack.r_unpack(idx, rep, floor=45)
