"""C09 — alternative distance algorithms (structural clauses)."""
from . import scopes
from ..core.report import DOMAIN_D
from ..rules import colliders, rowalias, nesterov, johnson, mink, loops, frame, unpack, misc2
from .common import e2

N1 = "distance3d.gjk._gjk_nesterov_accelerated"
N2 = "distance3d.gjk._gjk_nesterov_accelerated_primitives"
O = "distance3d.gjk._gjk_original"


def run(idx, rep, tier):
    rep.set_scope(scopes.scope(idx, "C09"))
    rep.explanation = (
        "R-JOHNSONOPT: the test in front of every sub-simplex of the main sub-algorithm expands (predicate methods inlined, De Morgan) to exactly Johnson's optimality condition. R-JOHNSONREC: every cofactor stored into BarycentricCoordinates.d is Johnson's recursion Delta_j(X+j) = sum_i Delta_i(X) y_i.(y_k - y_j), with every factor resolved through local definitions, negations, call-site parameters and results of the other coordinate methods. "
        "R-INFL: finite enumeration over all ordered pairs of collider classes (extracted from the source) and both sides: "
        "the radius is added to the inflation iff both sides use their specialised supports and that side's specialised "
        "support ignores the radius. R-DISPATCH: type codes and data-vector slots of the primitives variant agree between "
        "writer and reader. R-DTREE: the region decision trees of the two Nesterov files are identical. R-TUPLEROLE: "
        "wrappers index the element named after the quantity; iteration helpers drive the same loop. R-JOHNSON / "
        "R-EXHAUSTIVE for the original GJK's final answer; R-MINK; loop caps. The 1e-3 accuracy is NOT decided.")
    rep.assumptions = DOMAIN_D
    nesterov.r_infl(idx, rep)
    nesterov.r_dispatch(idx, rep)
    nesterov.r_dtree(idx, rep)
    rowalias.r_rowalias(idx, rep, ["distance3d.gjk._gjk_nesterov_accelerated", "distance3d.gjk._gjk_nesterov_accelerated_primitives"])      # the simplex re-ordering functions get views of the rows they overwrite
    nesterov.r_tuplerole(idx, rep)
    johnson.r_johnson(idx, rep)
    johnson.r_johnsonrec(idx, rep)
    johnson.r_johnsonopt(idx, rep)
    johnson.r_parallel(idx, rep)
    johnson.r_dottable(idx, rep)
    mink.r_mink(idx, rep, modules=[N1, N2, O], floor=4)
    loops.r_loop(idx, rep, [N1, N2, O], floor=3)
    frame.r_frame(idx, rep, e2(idx), modules={N1, N2}, floor=10)      # relative pose oR1 / ot1 of collider 1 in collider 0's frame
    nesterov.r_mainloop(idx, rep)
    misc2.r_dupcond(idx, rep, [m.name for m in idx.lib_modules()], floor=3)
    colliders.r_coherence(idx, rep, relevant_to="support_function")      # the colliders of the statement include colliders that were moved with update_pose: a stale attribute changes the support mapping the solver sees
    misc2.r_adjacency(idx, rep)      # mesh colliders answer support queries by hill climbing over this adjacency
    nesterov.r_supportsibling(idx, rep)
    johnson.r_cofactorsign(idx, rep)
    unpack.r_unpack(idx, rep, floor=27)
