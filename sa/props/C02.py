"""C02 — boolean collision tests (structural clauses)."""
from . import scopes
from ..core.report import DOMAIN_D
from ..rules import colliders, rowalias, nesterov, mink, loops, runmin, libccd, unpack, ericson, misc2, unitdir, frame
from .common import e2

MODS = ["distance3d.gjk._gjk_jolt", "distance3d.gjk._gjk_libccd", "distance3d.mpr", "distance3d.gjk._gjk_nesterov_accelerated",
        "distance3d.gjk._gjk_nesterov_accelerated_primitives", "distance3d.minkowski"]


def run(idx, rep, tier):
    rep.set_scope(scopes.scope(idx, "C02"))
    rep.explanation = (
        "Structural necessary conditions shared by the five boolean tests: Minkowski pairing and collider order at every "
        "support site (R-MINK; the pre-image arrays v1/v2 do not influence a boolean, so R-PAR is not part of C02), inflation / support agreement and "
        "type dispatch of the Nesterov tests, whose boolean is `distance < tolerance` after subtracting the inflation "
        "(R-INFL, R-DISPATCH, R-DTREE), the libccd simplex refinement keeps in every branch the feature its new direction is computed from (R-DOSIMPLEX), running minima are stored (R-RUNMIN), result-tuple roles (R-TUPLEROLE), iteration caps / exit discipline of all five loops "
        "(R-LOOP), frame consistency of the collider methods the tests call (R-FRAME, engine E2). The delta = 1e-3 L band and agreement on concrete inputs are NOT decided.")
    rep.assumptions = DOMAIN_D
    mink.r_mink(idx, rep, modules=MODS, floor=15)
    mink.r_swaprows(idx, rep)
    runmin.r_runmin(idx, rep, ["distance3d.gjk._gjk_jolt"], floor=2)
    libccd.r_dosimplex(idx, rep)
    libccd.r_expandportal(idx, rep)      # MPR refinement: the portal keeps the origin ray only if the new point replaces the right vertex
    nesterov.r_infl(idx, rep)
    nesterov.r_dispatch(idx, rep)
    nesterov.r_dtree(idx, rep)
    rowalias.r_rowalias(idx, rep, ["distance3d.gjk._gjk_nesterov_accelerated", "distance3d.gjk._gjk_nesterov_accelerated_primitives"])      # the simplex re-ordering functions get views of the rows they overwrite
    nesterov.r_tuplerole(idx, rep, floor=6)
    loops.r_loop(idx, rep, MODS, floor=6)
    ericson.r_ericson(idx, rep)
    nesterov.r_mainloop(idx, rep)
    misc2.r_dupcond(idx, rep, [m.name for m in idx.lib_modules()], floor=3)
    colliders.r_coherence(idx, rep, relevant_to="support_function")      # the colliders of the statement include colliders that were moved with update_pose: a stale attribute changes the support mapping the solver sees
    misc2.r_adjacency(idx, rep)      # mesh colliders answer support queries by hill climbing over this adjacency
    unitdir.r_portaldir(idx, rep)
    nesterov.r_supportsibling(idx, rep)
    # what the tests ask the colliders for (centre, support points, first vertex) must come back in the world frame: MPR aims its origin ray at
    # collider.center(), a centre rotated the wrong way lies outside the shape and separated pairs are reported as colliding
    frame.r_frame(idx, rep, e2(idx), modules={"distance3d.colliders", "distance3d.geometry", "distance3d.mesh", "distance3d.utils"}, floor=20)
    unpack.r_unpack(idx, rep, floor=28)
