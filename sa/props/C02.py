"""C02 — boolean collision tests (structural clauses)."""
from . import scopes
from ..core.report import DOMAIN_D
from ..rules import nesterov, mink, loops, runmin, libccd, unpack, ericson, misc2, unitdir

MODS = ["distance3d.gjk._gjk_jolt", "distance3d.gjk._gjk_libccd", "distance3d.mpr", "distance3d.gjk._gjk_nesterov_accelerated",
        "distance3d.gjk._gjk_nesterov_accelerated_primitives", "distance3d.minkowski"]


def run(idx, rep, tier):
    rep.set_scope(scopes.scope(idx, "C02"))
    rep.explanation = (
        "Structural necessary conditions shared by the five boolean tests: Minkowski pairing and collider order at every "
        "support site (R-MINK; the pre-image arrays v1/v2 do not influence a boolean, so R-PAR is not part of C02), inflation / support agreement and "
        "type dispatch of the Nesterov tests, whose boolean is `distance < tolerance` after subtracting the inflation "
        "(R-INFL, R-DISPATCH, R-DTREE), the libccd simplex refinement keeps in every branch the feature its new direction is computed from (R-DOSIMPLEX), running minima are stored (R-RUNMIN), result-tuple roles (R-TUPLEROLE), iteration caps / exit discipline of all five loops "
        "(R-LOOP). The delta = 1e-3 L band and agreement on concrete inputs are NOT decided.")
    rep.assumptions = DOMAIN_D
    mink.r_mink(idx, rep, modules=MODS, floor=15)
    runmin.r_runmin(idx, rep, ["distance3d.gjk._gjk_jolt"], floor=2)
    libccd.r_dosimplex(idx, rep)
    nesterov.r_infl(idx, rep)
    nesterov.r_dispatch(idx, rep)
    nesterov.r_dtree(idx, rep)
    nesterov.r_tuplerole(idx, rep, floor=6)
    loops.r_loop(idx, rep, MODS, floor=6)
    ericson.r_ericson(idx, rep)
    nesterov.r_mainloop(idx, rep)
    misc2.r_dupcond(idx, rep, [m.name for m in idx.lib_modules()], floor=3)
    unitdir.r_portaldir(idx, rep)
    nesterov.r_supportsibling(idx, rep)
    unpack.r_unpack(idx, rep, floor=28)
