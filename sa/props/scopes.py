"""Entry points of every property (taken from the property statements) and the function scope reachable from them.
A rule instance belongs to a property only if its function is in that scope: a check must not fire for a property
whose entry points cannot execute the changed code."""
from ..core import callgraph as cg

G = "distance3d.gjk."
J, O, L, N1, N2 = G + "_gjk_jolt", G + "_gjk_original", G + "_gjk_libccd", G + "_gjk_nesterov_accelerated", G + "_gjk_nesterov_accelerated_primitives"
HY = "distance3d.hydroelastic_contact."
COLL = "distance3d.colliders"


def _collider_methods(idx, names):
    out = []
    for m in (idx.module(COLL), idx.module("distance3d.mesh")):
        for c in m.classes.values():
            for n in names:
                if n in c.methods:
                    out.append(c.methods[n])
    return out


def _all_of(idx, *mods):
    out = []
    for mn in mods:
        out.extend(idx.module(mn).functions.values())
    return out


def _pkg(idx, prefix):
    out = []
    for m in idx.lib_modules():
        if m.name.startswith(prefix):
            out.extend(m.functions.values())
    return out


NARROW_ENTRIES = [J + "::gjk_distance_jolt", J + "::gjk_intersection_jolt", J + "::gjk_distance_jolt_iterations", O + "::gjk_distance_original",
                  L + "::gjk_intersection_libccd", N1 + "::gjk_nesterov_accelerated_intersection", N1 + "::gjk_nesterov_accelerated_distance",
                  N1 + "::gjk_nesterov_accelerated", N2 + "::gjk_nesterov_accelerated_primitives_intersection",
                  N2 + "::gjk_nesterov_accelerated_primitives_distance", N2 + "::gjk_nesterov_accelerated_primitives",
                  "distance3d.mpr::mpr_intersection", "distance3d.mpr::mpr_penetration", "distance3d.epa::epa"]

ENTRY = {
    # the colliders the statements quantify over reach their state through __init__ / update_pose: those belong to every narrow-phase scope
    "C01": lambda idx: cg.roots(idx, J + "::gjk_distance_jolt") + _collider_methods(idx, ("__init__", "update_pose")),
    "C02": lambda idx: cg.roots(idx, J + "::gjk_intersection_jolt", L + "::gjk_intersection_libccd", "distance3d.mpr::mpr_intersection",
                                N1 + "::gjk_nesterov_accelerated_intersection", N2 + "::gjk_nesterov_accelerated_primitives_intersection")
                       + _collider_methods(idx, ("__init__", "update_pose")),
    "C03": lambda idx: _collider_methods(idx, ("support_function", "first_vertex", "center", "__call__", "__init__", "update_pose"))
                       + [f for f in idx.module("distance3d.geometry").functions.values() if f.name.startswith("support_function_")]
                       + cg.roots(idx, "distance3d.mesh::make_convex_mesh"),      # builds the outward-wound triangles mesh colliders are made of
    "C04": lambda idx: _collider_methods(idx, ("aabb", "__init__", "update_pose")) + [f for f in idx.module("distance3d.containment").functions.values() if f.name.endswith("_aabb")]
                       + list(idx.cls(HY + "_rigid_body::RigidBody").methods.values()),
    "C05": lambda idx: _all_of(idx, "distance3d.aabb_tree"),
    "C06": lambda idx: _all_of(idx, "distance3d.broad_phase", "distance3d.self_collision", "distance3d.urdf_utils", "distance3d.aabb_tree")
                       + _collider_methods(idx, ("update_pose", "aabb", "__init__")),
    "C07": lambda idx: cg.roots(idx, "distance3d.epa::epa") + _collider_methods(idx, ("support_function", "__call__", "__init__")),      # epa queries collider.support_function (dynamic dispatch: every implementation and what it is built from)
    "C08": lambda idx: cg.roots(idx, "distance3d.mpr::mpr_penetration") + _collider_methods(idx, ("__init__", "update_pose")),
    "C09": lambda idx: cg.roots(idx, O + "::gjk_distance_original", N1 + "::gjk_nesterov_accelerated_distance", N2 + "::gjk_nesterov_accelerated_primitives_distance",
                                N1 + "::gjk_nesterov_accelerated", N2 + "::gjk_nesterov_accelerated_primitives") + [f for f in _all_of(idx, O, N1, N2, J) if "iterations" in f.name]
                       + _collider_methods(idx, ("__init__", "update_pose")),
    "C10": lambda idx: _pkg(idx, "distance3d.distance"),
    "C11": lambda idx: _pkg(idx, "distance3d.distance"),
    "C12": lambda idx: _pkg(idx, "distance3d.distance") + cg.roots(idx, *NARROW_ENTRIES) + _collider_methods(idx, ("support_function", "aabb", "__init__", "update_pose"))
                       + _all_of(idx, "distance3d.containment", "distance3d.containment_test") + cg.roots(idx, "distance3d.mesh::make_convex_mesh")
                       + [f for f in idx.module("distance3d.geometry").functions.values() if f.name.startswith("support_function_")],
    # "...agree with the collider's support function": the closed-form support functions are the reference the predicates must agree with
    "C13": lambda idx: cg.roots(idx, "distance3d.mesh::make_convex_mesh") + [f for n in ("_cylinder", "_disk", "_box", "_ellipsoid") for f in idx.module("distance3d.distance." + n).functions.values() if f.name.startswith("point_to_")] + [f for f in idx.module("distance3d.containment_test").functions.values() if f.name.startswith("points_in_")]
                       + [f for f in idx.module("distance3d.geometry").functions.values() if f.name.startswith("support_function_")]
                       + _collider_methods(idx, ("support_function", "__init__", "update_pose")),
    "C14": lambda idx: _all_of(idx, COLL, "distance3d.mesh"),
    "C15": lambda idx: _all_of(idx, HY + "_tetrahedron_intersection", HY + "_halfplanes", HY + "_barycentric_transform", HY + "_interface", HY + "_forces",
                               HY + "_contact_surface"),      # observe_at names ContactSurface.contact_planes / contact_polygons
    "C16": lambda idx: _all_of(idx, HY + "_interface", HY + "_forces", HY + "_rigid_body", HY + "_contact_surface", HY + "_broad_phase"),
    "C18": lambda idx: cg.roots(idx, J + "::get_closest_point_to_origin", O + "::distance_subalgorithm_with_backup_procedure"),
    "C19": lambda idx: cg.roots(idx, *NARROW_ENTRIES) + _all_of(idx, "distance3d.self_collision"),
    "C20": lambda idx: [f for m in idx.lib_modules() for f in m.functions.values()],
}


def scope(idx, prop):
    """{function key: FuncInfo} reachable from the property's entry points (cached on the index)"""
    cache = idx.__dict__.setdefault("_scope_cache", {})
    if prop not in cache:
        cache[prop] = cg.reachable(idx, ENTRY[prop](idx))
    return cache[prop]
