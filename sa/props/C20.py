"""C20 — compiled and interpreted execution agree (structural clauses)."""
from . import scopes
from ..core.report import DOMAIN_D
from ..rules import generic2, eager, buffers, aabbtree, safediv, unpack, misc2, defined
from .common import e1


def run(idx, rep, tier):
    rep.set_scope(scopes.scope(idx, "C20"))
    rep.explanation = (
        "Divergences between numba-compiled and interpreted execution that are visible in the source: R-EAGER (a call whose "
        "argument layout/dtype/ndim the explicit signature rejects raises TypeError compiled and succeeds interpreted), "
        "R-FROZEN (globals captured at compile time are never mutated), R-GUARDSTORE / R-SENTINEL (an unchecked index is an "
        "IndexError interpreted and a silent out-of-bounds access compiled), R-COMPACT / R-EMPTYFILL (rows and cells of np.empty "
        "buffers that reach a use are written), plus the decorator inventory. Numerical agreement and numba's own typing are not decided.")
    rep.assumptions = DOMAIN_D
    it = e1(idx)
    eager.r_eager(idx, rep, it, floor=150, unknown_ceiling=30)
    buffers.r_frozen(idx, rep)
    buffers.r_guardstore(idx, rep, floor=3)
    defined.r_defined(idx, rep, [m.name for m in idx.lib_modules()], floor=40, njit_only=True)      # UnboundLocalError interpreted vs a zero slot compiled
    buffers.r_boundedstore(idx, rep, floor=2)
    buffers.r_compact(idx, rep, floor=6)
    buffers.r_emptyfill(idx, rep, floor=6)
    aabbtree.r_sentinel(idx, rep)
    safediv.r_sqrtdomain(idx, rep, floor=10, unknown_ceiling=10)      # math.sqrt: ValueError interpreted, NaN compiled
    # decorator inventory
    njit = [f for f in idx.all_functions() if f.njit]
    eagerf = [f for f in njit if f.eager]
    rep.rule("R-INVENTORY", "inventory of compiled functions (a silently un-jitted or newly eager function changes the counts)", floor=100)
    for f in njit:
        rep.ok("R-INVENTORY", f.key, f.where, "eager %s" % (f.eager[0][0] if f.eager else "lazy"))
    rep.extra["njit_functions"] = len(njit)
    rep.extra["eager_functions"] = len(eagerf)
    misc2.r_dupcond(idx, rep, [m.name for m in idx.lib_modules()], floor=3)
    # compiled code raises ZeroDivisionError where the interpreted numpy scalar division gives inf / nan: in the compiled closed-form distance functions a
    # division by a magnitude sits on the non-zero side of a test of that magnitude
    safediv.r_safediv(idx, rep, floor=3, unknown_ceiling=2,
                      funcs=[f for m in idx.lib_modules() if m.name.startswith("distance3d.distance") or m.name == "distance3d.geometry" for f in m.functions.values() if any("njit" in d for d in f.decorators)])
    generic2.r_guardafteruse(idx, rep, [m.name for m in idx.lib_modules()], floor=8)
    unpack.r_unpack(idx, rep, floor=106)
