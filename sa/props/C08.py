"""C08 — MPR penetration result (structural clauses)."""
from . import scopes
from ..core.report import DOMAIN_D
from .common import e2
from ..rules import frame, colliders, mink, unitdir, loops, unpack, ericson, misc2


def run(idx, rep, tier):
    rep.set_scope(scopes.scope(idx, "C08"))
    rep.explanation = (
        "R-UNITDIR (sign/unit lattice, engine signs): on every return path the depth is built from norm / point-to-triangle "
        "distance / 0.0 and the direction from norm_vector(.) or np.zeros(3); the zero vector is returned for touching "
        "contacts; the contact position interpolates both pre-image arrays with one weight vector. R-PAR: every portal "
        "update writes v/v1/v2 at the same row from one support triple. R-MINK at all support sites. R-LOOP: "
        "_find_penetration_info and _discover_portal are capped, _refine_portal is TOLERANCE (termination not proved). "
        "Residual overlap, depth lower bound and contact point membership are NOT decided.")
    rep.assumptions = DOMAIN_D
    unitdir.r_unitdir(idx, rep)
    mink.r_par(idx, rep)
    mink.r_swaprows(idx, rep)
    mink.r_sameRow(idx, rep, floor=0)
    mink.r_mink(idx, rep, modules=["distance3d.mpr", "distance3d.minkowski"], floor=8)
    loops.r_loop(idx, rep, ["distance3d.mpr"], floor=2)
    ericson.r_ericson(idx, rep)
    misc2.r_dupcond(idx, rep, [m.name for m in idx.lib_modules()], floor=3)
    frame.r_frame(idx, rep, e2(idx), modules={"distance3d.colliders", "distance3d.mesh"}, floor=10)      # MPR aims its origin ray at collider.center() and reads support points: both are world-frame points
    colliders.r_coherence(idx, rep, relevant_to="support_function")      # the colliders of the statement include colliders that were moved with update_pose: a stale attribute changes the support mapping the solver sees
    misc2.r_adjacency(idx, rep)      # mesh colliders answer support queries by hill climbing over this adjacency
    unitdir.r_portaldir(idx, rep)
    unpack.r_unpack(idx, rep, floor=6)
