"""Registered single-point mutants, one list per rule family.  Anchors are statement/expression *text* looked up in
the ast of /repo's current source (format independent); a vanished anchor makes the mutant 'skipped', and too many
skipped mutants (below FLOORS) is an analysis error."""
from .harness import Mutant as M

AT = "distance3d/aabb_tree.py"

_C05 = [
    M(["C05"], "closed-strict-lo", AT, "aabb_overlap", "aabb1[0, 0] <= aabb2[0, 1]", "aabb1[0, 0] < aabb2[0, 1]", "R-CLOSED"),
    M(["C05"], "closed-strict-hi", AT, "aabb_overlap", "aabb1[2, 1] >= aabb2[2, 0]", "aabb1[2, 1] > aabb2[2, 0]", "R-CLOSED"),
    M(["C05"], "closed-wrong-axis", AT, "aabb_overlap", "aabb1[1, 0] <= aabb2[1, 1]", "aabb1[1, 0] <= aabb2[2, 1]", "R-CLOSED"),
    M(["C05"], "closed-wrong-col", AT, "aabb_overlap", "aabb1[1, 1] >= aabb2[1, 0]", "aabb1[1, 1] >= aabb2[1, 1]", "R-CLOSED"),
    M(["C05"], "traverse-one-child", AT, "query_overlap", "stack.extend([nodes[node_index, 1], nodes[node_index, 2]])",
      "stack.extend([nodes[node_index, 1]])", ["R-TRAVERSE", "query_overlap|push-both"]),
    M(["C05"], "traverse-same-child-twice", AT, "query_overlap", "stack.extend([nodes[node_index, 1], nodes[node_index, 2]])",
      "stack.extend([nodes[node_index, 1], nodes[node_index, 1]])", ["R-TRAVERSE", "query_overlap|push-both"]),
    M(["C05"], "traverse-break-always", AT, "query_overlap", "if break_at_first_leaf:\n    break", "break", ["R-TRAVERSE", "early-exit"]),
    M(["C05"], "traverse-extra-filter", AT, "query_overlap", "overlaps.extend([node_index])",
      "if node_index % 2 == 0:\n    overlaps.extend([node_index])", ["R-TRAVERSE", "extra-filter"]),
    M(["C05"], "traverse-append-other", AT, "query_overlap", "overlaps.extend([node_index])",
      "overlaps.extend([nodes[node_index, 0]])", ["R-TRAVERSE", "leaf-append-value"]),
    M(["C05"], "traverse-no-pop", AT, "query_overlap", "stack = stack[:-1]", "stack = stack[:]", ["R-TRAVERSE", "query_overlap|pop"]),
    M(["C05"], "tt-prune-bound", AT, "query_overlap_of_other_tree",
      "len(query_overlap(node_aabb, root1, nodes1, aabbs1, break_at_first_leaf=True)) >= 1",
      "len(query_overlap(node_aabb, root1, nodes1, aabbs1, break_at_first_leaf=True)) > 1", ["R-TRAVERSE", "prune-bound"]),
    M(["C05"], "tt-leaf-early-exit", AT, "query_overlap_of_other_tree",
      "overlaps = query_overlap(node_aabb, root1, nodes1, aabbs1)",
      "overlaps = query_overlap(node_aabb, root1, nodes1, aabbs1, break_at_first_leaf=True)", ["R-TRAVERSE", "leaf-query-complete"]),
    M(["C05"], "tt-one-child", AT, "query_overlap_of_other_tree", "stack.extend([nodes2[node_index, 1], nodes2[node_index, 2]])",
      "stack.extend([nodes2[node_index, 2]])", ["R-TRAVERSE", "other_tree|push-both"]),
    M(["C05"], "tt-wrong-tree-box", AT, "query_overlap_of_other_tree", "node_aabb = aabbs2[node_index]", "node_aabb = aabbs1[node_index]",
      ["R-TRAVERSE", "other_tree"]),
    M(["C05"], "tt-pairs-swapped", AT, "query_overlap_of_other_tree", "broad_pairs = list(zip(broad_tetrahedra1, broad_tetrahedra2))",
      "broad_pairs = list(zip(broad_tetrahedra2, broad_tetrahedra1))", ["R-TRAVERSE", "return-order"]),
    M(["C05"], "tt-seed-root1", AT, "query_overlap_of_other_tree", "stack = [root2]", "stack = [root1]", ["R-TRAVERSE", "seed"]),
    M(["C05"], "links-no-leaf-parent", AT, "insert_leaf", "nodes[leaf_node_index, PARENT_INDEX] = new_parent_index", "", ["R-LINKS", "child-store"]),
    M(["C05"], "links-no-sibling-parent", AT, "insert_leaf", "nodes[sibling_index, PARENT_INDEX] = new_parent_index", "", ["R-LINKS"]),
    M(["C05"], "links-no-inherit", AT, "insert_leaf", "nodes[new_parent_index, PARENT_INDEX] = old_parent_index", "", ["R-LINKS"]),
    M(["C05"], "links-redirect-wrong-slot", AT, "insert_leaf", "nodes[old_parent_index, RIGHT_INDEX] = new_parent_index",
      "nodes[old_parent_index, LEFT_INDEX] = new_parent_index", ["R-LINKS", "redirect"]),
    M(["C05"], "links-redirect-test-leaf", AT, "insert_leaf", "nodes[old_parent_index, LEFT_INDEX] == sibling_index",
      "nodes[old_parent_index, LEFT_INDEX] == leaf_node_index", ["R-LINKS", "redirect-slot-match"]),
    M(["C05"], "links-root-not-updated", AT, "insert_leaf", "root_node_index = new_parent_index", "root_node_index = sibling_index", ["R-LINKS", "root-update"]),
    M(["C05"], "links-same-child-twice", AT, "insert_leaf", "nodes[new_parent_index, RIGHT_INDEX] = leaf_node_index",
      "nodes[new_parent_index, RIGHT_INDEX] = sibling_index", ["R-LINKS"]),
    M(["C05"], "links-no-filled-inc", AT, "insert_leaf", "filled_len += 1", "", ["R-LINKS", "fresh-slot"]),
    M(["C05"], "links-branch-type", AT, "insert_leaf", "nodes[new_parent_index, TYPE_INDEX] = TYPE_BRANCH",
      "nodes[new_parent_index, TYPE_INDEX] = TYPE_LEAF", ["R-LINKS", "branch-type"]),
    M(["C05"], "links-descent-same-child", AT, "insert_leaf", "tree_node_index = right_node_index", "tree_node_index = left_node_index", ["R-LINKS", "descent-children"]),
    M(["C05"], "links-old-parent-late", AT, "insert_leaf", "old_parent_index = nodes[sibling_index, PARENT_INDEX]",
      "old_parent_index = nodes[leaf_node_index, PARENT_INDEX]", ["R-LINKS", "old-parent"]),
    M(["C05"], "refit-min-max-swapped", AT, "_merge_aabb", "min(aabb1[1, 0], aabb2[1, 0])", "max(aabb1[1, 0], aabb2[1, 0])", ["R-REFIT", "row1 col0"]),
    M(["C05"], "refit-wrong-col", AT, "_merge_aabb", "max(aabb1[2, 1], aabb2[2, 1])", "max(aabb1[2, 1], aabb2[2, 0])", ["R-REFIT", "row2 col1"]),
    M(["C05"], "refit-one-sided", AT, "_merge_aabb", "min(aabb1[0, 0], aabb2[0, 0])", "min(aabb1[0, 0], aabb1[0, 0])", ["R-REFIT", "row0 col0"]),
    M(["C05"], "refit-parent-box-leaf-only", AT, "insert_leaf", "_merge_aabb(aabbs[leaf_node_index], aabbs[sibling_index])",
      "_merge_aabb(aabbs[leaf_node_index], aabbs[leaf_node_index])", ["R-REFIT", "new-parent-box"]),
    M(["C05"], "refit-no-upward", AT, "insert_leaf", "aabbs = fix_upward_tree(tree_node_index, nodes, aabbs)", "", ["R-REFIT", "upward-fix-called"]),
    M(["C05"], "refit-upward-one-child", AT, "fix_upward_tree", "aabbs[tree_node[RIGHT_INDEX]]", "aabbs[tree_node[LEFT_INDEX]]", ["R-REFIT", "remerge-both"]),
    M(["C05"], "refit-upward-step", AT, "fix_upward_tree", "tree_node_index = tree_node[PARENT_INDEX]", "tree_node_index = INDEX_NONE", ["R-REFIT", "step-to-parent"]),
    M(["C05", "C20"], "sentinel-guard-removed", AT, "query_overlap", "if node_index == INDEX_NONE:\n    continue", "", ["R-SENTINEL", "query_overlap|root_node_index"]),
    M(["C05", "C20"], "sentinel-guard-removed-tt", AT, "query_overlap_of_other_tree", "if node_index == INDEX_NONE:\n    continue", "", ["R-SENTINEL", "root2"]),
    M(["C05"], "book-no-truncate-ext", AT, "AabbTree.insert_aabbs", "self.external_data_list = self.external_data_list[:self.filled_len]", "", ["R-BOOKKEEP", "truncate external_data_list"]),
    M(["C05"], "book-no-truncate-aabbs", AT, "AabbTree.insert_aabbs", "self.aabbs = self.aabbs[:self.filled_len]", "", ["R-BOOKKEEP", "truncate aabbs"]),
    M(["C05"], "book-pad-wrong-len", AT, "AabbTree.insert_aabbs", "[None] * (len(self.nodes) - len(self.external_data_list))",
      "[None] * (len(self.nodes) - len(self.insert_index_list))", ["R-BOOKKEEP", "external_data_list"]),
    M(["C05"], "book-result-order", AT, "AabbTree.insert_aabbs",
      "self.root, self.nodes, self.aabbs, self.filled_len = insert_aabbs(self.root, self.nodes, self.aabbs, self.filled_len, insert_order)",
      "self.root, self.aabbs, self.nodes, self.filled_len = insert_aabbs(self.root, self.nodes, self.aabbs, self.filled_len, insert_order)",
      ["R-BOOKKEEP", "result-order"]),
    M(["C05"], "book-capacity", AT, "AabbTree.insert_aabbs", "2 * (self.filled_len - len(self.nodes))", "1 * (self.filled_len - len(self.nodes))", ["R-BOOKKEEP", "capacity"]),
    M(["C05"], "index-batch-local-sort", AT, "AabbTree.insert_aabbs", "old_filled_len + _sort_aabbs(self.aabbs[old_filled_len:self.filled_len])",
      "_sort_aabbs(self.aabbs[old_filled_len:self.filled_len])", ["R-INDEXSPACE"]),
    M(["C05"], "index-range-from-zero", AT, "AabbTree.insert_aabbs", "np.array(range(old_filled_len, self.filled_len))",
      "np.array(range(aabb_len))", ["R-INDEXSPACE"]),
    M(["C05"], "thread-state-leaf-index", AT, "insert_aabbs", "insert_leaf(root, i, nodes, aabbs, filled_len)", "insert_leaf(root, filled_len, nodes, aabbs, i)", ["R-BOOKKEEP", "thread-state"]),
    M(["C05"], "unique-dropped", AT, "AabbTree.overlaps_aabb_tree", "np.unique(overlap_tetrahedron1)", "overlap_tetrahedron1", ["R-UNIQUE"]),
    M(["C05"], "roles-swapped-trees", AT, "AabbTree.overlaps_aabb_tree",
      "query_overlap_of_other_tree(self.root, self.nodes, self.aabbs, other.root, other.nodes, other.aabbs)",
      "query_overlap_of_other_tree(self.root, self.nodes, self.aabbs, other.root, other.nodes, self.aabbs)", ["R-UNIQUE", "roles"]),
]

EP = "distance3d/epa.py"
CO = "distance3d/colliders.py"
JO = "distance3d/gjk/_gjk_jolt.py"
LBX = "distance3d/distance/_line_to_box.py"
MP = "distance3d/mpr.py"
MK = "distance3d/minkowski.py"
HP = "distance3d/hydroelastic_contact/_halfplanes.py"
TI = "distance3d/hydroelastic_contact/_tetrahedron_intersection.py"
FO = "distance3d/hydroelastic_contact/_forces.py"
IF = "distance3d/hydroelastic_contact/_interface.py"
RB = "distance3d/hydroelastic_contact/_rigid_body.py"
NE = "distance3d/gjk/_gjk_nesterov_accelerated.py"
NP_ = "distance3d/gjk/_gjk_nesterov_accelerated_primitives.py"
OR = "distance3d/gjk/_gjk_original.py"
LC = "distance3d/gjk/_gjk_libccd.py"
ME = "distance3d/mesh.py"

_C07 = [
    M(["C07"], "epa-alias-view", EP, "Polytope.fix_ccw_normal_direction", "temp = np.copy(self.faces[face_idx, 0])", "temp = self.faces[face_idx, 0]", ["R-ALIAS", "fix_ccw"]),
    M(["C07"], "epa-alias-view-winding", EP, "Polytope.fix_ccw_normal_direction", "temp = np.copy(self.faces[face_idx, 0])", "temp = self.faces[face_idx, 0]", ["R-WINDING", "real swap"]),
    M(["C07"], "epa-initial-no-repair", EP, "Polytope._initialize_from_simplex", "self.fix_ccw_normal_direction(i)", "", ["R-WINDING", "_initialize_from_simplex", "repair"]),
    M(["C07"], "epa-extend-no-repair", EP, "Polytope.extend_with_point", "self.fix_ccw_normal_direction(self.n_faces)", "", ["R-WINDING", "extend_with_point", "repair"]),
    M(["C07"], "epa-extend-no-normal", EP, "Polytope.extend_with_point", "self.compute_normal(self.n_faces)", "", ["R-WINDING", "extend_with_point", "normal"]),
    M(["C07"], "epa-repair-cond-flipped", EP, "Polytope.fix_ccw_normal_direction", "np.dot(self.faces[face_idx, 0], self.faces[face_idx, 3]) + bias < 0.0",
      "np.dot(self.faces[face_idx, 0], self.faces[face_idx, 3]) + bias > 0.0", ["R-WINDING", "flip iff"]),
    M(["C07"], "epa-repair-no-negate", EP, "Polytope.fix_ccw_normal_direction", "self.faces[face_idx, 3] = -self.faces[face_idx, 3]", "self.faces[face_idx, 3] = self.faces[face_idx, 3]", ["R-WINDING", "normal negated"]),
    M(["C07"], "epa-normal-cw", EP, "Polytope.compute_normal", "self.faces[face_idx, 2] - self.faces[face_idx, 0]", "self.faces[face_idx, 0] - self.faces[face_idx, 2]", ["R-WINDING", "unit("]),
    M(["C07"], "epa-mink-same-dir", EP, "epa", "collider2.support_function(-search_direction)", "collider2.support_function(search_direction)", ["R-MINK", "negated"]),
    M(["C07"], "epa-mink-swapped-diff", EP, "epa", "new_point = new_vertex1 - new_vertex2", "new_point = new_vertex2 - new_vertex1", ["R-MINK", "difference"]),
    M(["C07"], "epa-mtv-vertex", EP, "epa", "mtv = closest_face[3] * np.dot(new_point, search_direction)", "mtv = closest_face[0] * np.dot(new_point, search_direction)", ["R-MTV", "mtv"], nth=0),
    M(["C07"], "epa-mtv-old-point", EP, "epa", "mtv = closest_face[3] * np.dot(new_point, search_direction)", "mtv = closest_face[3] * np.dot(closest_face[0], search_direction)", ["R-MTV", "mtv"]),
    M(["C07"], "epa-success-on-fallthrough", EP, "epa", "return (mtv, polytope.get_all_faces(), False)", "return (mtv, polytope.get_all_faces(), True)", ["R-MTV", "no success outside"]),
    M(["C07"], "epa-convergence-test", EP, "epa", "np.dot(new_point, search_direction) - min_dist < epsilon", "np.dot(new_point, search_direction) + min_dist < epsilon", ["R-MTV", "convergence"]),
    M(["C07"], "epa-argmax-face", EP, "Polytope.find_face_closest_to_origin", "np.argmin(dists)", "np.argmax(dists)", ["R-MTV", "argmin"]),
    M(["C07", "C20"], "epa-guard-after-store", EP, "Polytope.extend_with_point",
      "assert self.n_faces < self.max_faces\nif self.n_faces >= self.max_faces:\n    break\nself.faces[self.n_faces, :2] = loose_edges.loose_edges[i]",
      "self.faces[self.n_faces, :2] = loose_edges.loose_edges[i]\nassert self.n_faces < self.max_faces\nif self.n_faces >= self.max_faces:\n    break",
      ["R-GUARDSTORE", "extend_with_point"]),
    M(["C07", "C20"], "epa-looseedge-guard-late", EP, "LooseEdges.add_edge_to_list",
      "if self.n_loose_edges >= self.max_loose_edges:\n    return False\nself.loose_edges[self.n_loose_edges] = edge",
      "self.loose_edges[self.n_loose_edges] = edge\nif self.n_loose_edges >= self.max_loose_edges:\n    return False", ["R-GUARDSTORE", "add_edge_to_list"]),
    M(["C07", "C19"], "epa-scan-no-advance", EP, "LooseEdges.find_triangles_facing_point_and_store_loose_edges", "i += 1", "i += 0", ["R-LOOP", "find_triangles"]),
    M(["C07", "C19"], "epa-edge-scan-no-advance", EP, "LooseEdges.add_removed_triangles_edges_to_list", "k += 1", "k += 0", ["R-LOOP", "add_removed"]),
]
_C07 += [
    M(["C07"], "facerole-search-dir-vertex", EP, "epa", "search_direction = closest_face[3]", "search_direction = closest_face[2]", ["epa"]),
    M(["C07"], "facerole-faces-point-normal", EP, "Polytope.triangle_faces_point", "np.dot(self.faces[i, 3], new_points - self.faces[i, 0])", "np.dot(self.faces[i, 3], new_points - self.faces[i, 3])", ["R-FACEROLE", "triangle_faces_point"]),
    M(["C07"], "facerole-closest-dist", EP, "Polytope.find_face_closest_to_origin", "self.faces[:self.n_faces, 0] * self.faces[:self.n_faces, 3]", "self.faces[:self.n_faces, 0] * self.faces[:self.n_faces, 1]", ["find_face_closest_to_origin"]),
    M(["C07"], "facerole-fallback-mtv", EP, "epa", "mtv = closest_face[3] * np.dot(closest_face[0], closest_face[3])", "mtv = closest_face[3] * np.dot(closest_face[0], closest_face[1])", ["R-FACEROLE", "epa"]),
]

_C14 = [
    M(["C14", "C20"], "disk-update-view-c", CO, "Disk.update_pose", "self.c = np.ascontiguousarray(pose[:3, 3])", "self.c = pose[:3, 3]", ["R-EAGER", "Disk.support_function"]),
    M(["C14", "C20"], "disk-update-view-normal", CO, "Disk.update_pose", "self.normal = np.ascontiguousarray(pose[:3, 2])", "self.normal = pose[:3, 2]", ["R-EAGER", "Disk"]),
    M(["C14", "C20"], "ellipse-update-view-axes", CO, "Ellipse.update_pose", "self.axes = np.ascontiguousarray(pose[:3, :2].T)", "self.axes = pose[:3, :2].T", ["R-EAGER", "Ellipse.support_function"]),
    M(["C14", "C20"], "sphere-support-no-contig", CO, "Sphere.support_function", "np.ascontiguousarray(self.c)", "self.c", ["R-EAGER", "Sphere.support_function"]),
    M(["C14", "C20"], "cylinder-update-rotation-only", CO, "Cylinder.update_pose", "self.cylinder2origin = pose", "self.cylinder2origin = pose.T", ["R-EAGER", "Cylinder"]),
    M(["C14"], "box-update-no-vertices", CO, "Box.update_pose", "self.vertices = convert_box_to_vertices(pose, self.size)", "", ["R-COHERENCE", "Box", "vertices"]),
    M(["C14"], "box-update-old-pose", CO, "Box.update_pose", "self.vertices = convert_box_to_vertices(pose, self.size)", "self.vertices = convert_box_to_vertices(self.box2origin, 0.5 * self.size)", ["R-COHERENCE", "Box", "vertices"]),
    M(["C14"], "mesh-update-no-delegate", CO, "MeshGraph.update_pose", "self._support_function.update_pose(mesh2origin)", "", ["R-COHERENCE", "MeshGraph", "_support_function"]),
    M(["C14"], "margin-update-no-delegate", CO, "Margin.update_pose", "self.collider.update_pose(pose)", "pass", ["R-COHERENCE"]),
    M(["C14"], "disk-update-no-normal", CO, "Disk.update_pose", "self.normal = np.ascontiguousarray(pose[:3, 2])", "", ["R-ROUNDTRIP", "Disk", "normal refreshed"]),
    M(["C14"], "disk-roundtrip-normal-col", CO, "Disk.update_pose", "self.normal = np.ascontiguousarray(pose[:3, 2])", "self.normal = np.ascontiguousarray(pose[:3, 1])", ["R-ROUNDTRIP", "Disk", "normal"]),
    M(["C14"], "ellipse-roundtrip-no-T", CO, "Ellipse.collider2origin", "ellipse2origin[:3, :2] = self.axes.T", "ellipse2origin[:2, :3] = self.axes", ["R-ROUNDTRIP", "Ellipse", "axes"]),
    M(["C14"], "sphere-roundtrip-col", CO, "Sphere.collider2origin", "sphere2origin[:3, 3] = self.c", "sphere2origin[3, :3] = self.c", ["R-ROUNDTRIP", "Sphere"]),
    M(["C14"], "meshsupport-update-noop", ME, "MeshHillClimbingSupportFunction.update_pose", "self.mesh2origin = mesh2origin", "self.mesh2origin = self.mesh2origin", ["R-COHERENCE"]),
    M(["C14"], "ellipse-update-c-row", CO, "Ellipse.update_pose", "self.c = np.ascontiguousarray(pose[:3, 3])", "self.c = np.ascontiguousarray(pose[3, :3])", ["R-ROUNDTRIP", "Ellipse", "c <-"]),
]

_C15 = [
    M(["C15", "C20"], "halfplanes-compact-loop-index", TI, "make_halfplanes", "halfplanes[hp_idx, :2] = p", "halfplanes[i, :2] = p", ["R-COMPACT", "make_halfplanes"]),
    M(["C15", "C20"], "halfplanes-compact-col3", TI, "make_halfplanes", "halfplanes[hp_idx, 3] = -normals2d[i, 0]", "halfplanes[i, 3] = -normals2d[i, 0]", ["R-COMPACT", "make_halfplanes"]),
    M(["C15", "C20"], "unique-points-loop-index", TI, "filter_unique_points", "unique_points[n_unique_points] = points[j]", "unique_points[j] = points[j]", ["R-COMPACT", "filter_unique_points"]),
    M(["C15", "C20"], "intersect-points-loop-index", HP, "intersect_halfplanes", "points[n_intersections] = p", "points[k] = p", ["R-COMPACT", "intersect_halfplanes"]),
    M(["C15", "C20"], "intersect-assert-late", HP, "intersect_halfplanes",
      "assert n_intersections < len(points)\npoints[n_intersections] = p", "points[n_intersections] = p\nassert n_intersections < len(points)", ["R-GUARDSTORE", "intersect_halfplanes"]),
    M(["C15"], "force-not-along-normal", FO, "compute_contact_force", "force_vector = total_force * contact_plane_hnf[:3]", "force_vector = total_force * intersection_com", ["R-FORCEDIR"]),
    M(["C15"], "force-hnf-slice", FO, "compute_contact_force", "force_vector = total_force * contact_plane_hnf[:3]", "force_vector = total_force * contact_plane_hnf[1:]", ["R-FORCEDIR"]),
    M(["C15"], "polyguard-two-vertices", TI, "intersect_tetrahedron_pair", "len(contact_polygon) < 3", "len(contact_polygon) < 2", ["R-POLYGUARD", "intersect_tetrahedron_pair"]),
    M(["C15"], "polyguard-unique-dropped", TI, "compute_contact_polygon", "if len(unique_vertices2d) < 3:\n    return np.empty((0, 3), dtype=np.dtype('float'))", "", ["R-POLYGUARD", "two degenerate"]),
    M(["C15"], "plane-offset-before-normalise", TI, "contact_plane", "plane_hnf /= norm", "plane_hnf[:3] /= norm", ["R-POLYGUARD", "normalise"]),
    M(["C15"], "plane-no-zero-test", TI, "contact_plane", "if norm == 0.0:\n    return (plane_hnf, True)", "", ["R-POLYGUARD", "zero test"]),
]

_C16 = [
    M(["C16"], "reaction-same-sign", FO, "_transform_wrenches", "np.hstack((-total_force_21, total_torque_12))", "np.hstack((total_force_21, total_torque_12))", ["R-REACTION", "f12 = -f21"]),
    M(["C16"], "reaction-torque-swapped", FO, "_transform_wrenches", "np.hstack((total_force_21, total_torque_21))", "np.hstack((total_force_21, total_torque_12))", ["R-REACTION", "torque pairing"]),
    M(["C16"], "reaction-com-body", FO, "accumulate_wrenches", "contact_surface.contact_coms - rigid_body2.com", "contact_surface.contact_coms - rigid_body1.com", ["R-REACTION", "total_torque_12"]),
    M(["C16"], "reaction-torque-sign", FO, "accumulate_wrenches", "-contact_surface.contact_forces", "contact_surface.contact_forces", ["R-REACTION", "total_torque_12"]),
    M(["C16"], "reaction-return-swapped", FO, "_transform_wrenches", "return (wrench12_in_world, wrench21_in_world)", "return (wrench21_in_world, wrench12_in_world)", ["R-REACTION", "unpack order"]),
    M(["C16"], "reaction-contact-forces-order", IF, "contact_forces", "return (contact_surface.intersection, wrench12_in_world, wrench21_in_world)",
      "return (contact_surface.intersection, wrench21_in_world, wrench12_in_world)", ["R-REACTION", "return order"]),
    M(["C16"], "attr-wrong-name", IF, "find_contact_surface", "rigid_body1.aabb_tree.overlaps_aabb_tree(rigid_body2.aabb_tree)", "rigid_body1.aabbtree_.overlaps_aabb_tree(rigid_body2.aabbtree_)", ["R-ATTR", "aabbtree_"]),
    M(["C16"], "attr-wrong-name-potentials", IF, "find_contact_surface", "rigid_body2.tetrahedra_potentials", "rigid_body2.tetrahedra_potential", ["R-ATTR", "tetrahedra_potential"]),
    M(["C16"], "invalidate-no-aabbs", RB, "RigidBody.express_in", "self._aabbs = None", "", ["R-INVALIDATE", "_aabbs"]),
    M(["C16"], "invalidate-no-com", RB, "RigidBody.express_in", "self._com = None", "", ["R-INVALIDATE", "_com"]),
    M(["C16"], "invalidate-no-tree", RB, "RigidBody.express_in", "self._aabb_tree = None", "", ["R-INVALIDATE", "_aabb_tree"]),
    M(["C16"], "same-pred-swapped-bodies", IF, "find_contact_surface", "all_aabbs_overlap(rigid_body1.aabbs, rigid_body2.aabbs)", "all_aabbs_overlap(rigid_body2.aabbs, rigid_body1.aabbs)", ["R-SAMEPREDICATE", "brute-force argument order"]),
    M(["C16"], "same-pred-tree-swapped", IF, "find_contact_surface", "rigid_body1.aabb_tree.overlaps_aabb_tree(rigid_body2.aabb_tree)", "rigid_body2.aabb_tree.overlaps_aabb_tree(rigid_body1.aabb_tree)", ["R-SAMEPREDICATE", "tree argument order"]),
    M(["C16"], "same-pred-no-express", IF, "find_contact_surface", "rigid_body1.express_in(rigid_body2.body2origin_)", "", ["R-SAMEPREDICATE", "express_in"]),
]

_C19 = [
    M(["C19"], "nesterov-continue-no-flag", NE, "gjk_nesterov_accelerated", "use_nesterov_acceleration = False\nsimplex_len -= 1\ncontinue", "simplex_len -= 1\ncontinue", ["R-LOOP", "gjk_nesterov_accelerated"]),
    M(["C19"], "nesterov-no-increment", NE, "gjk_nesterov_accelerated", "i += 1", "", ["R-LOOP", "gjk_nesterov_accelerated"]),
    M(["C19"], "nesterov-prim-no-increment", NP_, "run_gjk_nesterov_accelerated", "i += 1", "", ["R-LOOP", "run_gjk_nesterov_accelerated"]),
    M(["C19"], "jolt-progress-strict", JO, "_distance_loop", "prev_v_len_sq - v_len_sq <= EPSILON * prev_v_len_sq", "prev_v_len_sq - v_len_sq < EPSILON * prev_v_len_sq", ["R-LOOP", "gjk_distance_jolt"]),
    M(["C19"], "jolt-no-prev-update", JO, "_distance_loop", "prev_v_len_sq = v_len_sq", "", ["R-LOOP", "gjk_distance_jolt"]),
    M(["C19"], "jolt-intersection-no-progress-test", JO, "_intersection_loop",
      "if prev_v_len_sq - v_len_sq <= EPSILON * prev_v_len_sq:\n    return (GjkState.NoIntersection, n_points, prev_v_len_sq)", "", ["R-LOOP", "gjk_intersection_jolt"]),
    M(["C19"], "mpr-penetration-no-cap", MP, "_find_penetration_info", "iterations > max_iterations", "False", ["R-LOOP", "_find_penetration_info"]),
    M(["C19"], "mpr-penetration-no-increment", MP, "_find_penetration_info", "iterations += 1", "", ["R-LOOP", "_find_penetration_info"]),
    M(["C19"], "mpr-discover-no-cap", MP, "_discover_portal", "if it >= max_iterations:\n    portal.n_points = 4\n    break", "", ["R-LOOP", "_discover_portal"]),
    M(["C19"], "mpr-refine-no-tolerance", MP, "_refine_portal", "_portal_reach_tolerance(portal.v, next_support_point, search_direction, mpr_tolerance)", "False", ["R-LOOP", "_refine_portal"]),
    M(["C19"], "original-strict-compare", OR, "gjk_distance_original", "new_solution.distance_squared >= solution.distance_squared", "new_solution.distance_squared > solution.distance_squared", ["R-LOOP", "gjk_distance_original"]),
    M(["C19"], "original-no-solution-update", OR, "gjk_distance_original", "solution = new_solution", "", ["R-LOOP", "gjk_distance_original"]),
    M(["C19"], "libccd-while-true", LC, "_gjk", "range(max_iterations)", "iter(int, 1)", ["R-LOOP", "_gjk"]),
    M(["C19"], "hillclimb-nonstrict", ME, "hill_climb_mesh_extreme", "projected_length > PROJECTION_LENGTH_EPSILON", "projected_length >= 0.0", ["R-LOOP", "hill_climb_mesh_extreme"], nth=1),
    M(["C19"], "hillclimb-no-reset", ME, "hill_climb_mesh_extreme", "converged = True", "", ["R-LOOP", "hill_climb_mesh_extreme"], nth=0),
    M(["C19", "C07"], "epa-range-unbounded", EP, "epa", "range(max_iter)", "iter(int, 1)", ["epa"]),
]

_C20 = [
    M(["C20"], "frozen-global-mutated", "distance3d/geometry.py", "convert_rectangle_to_vertices",
      "return rectangle_center + (RECTANGLE_COORDS * rectangle_lengths).dot(rectangle_axes)",
      "BOX_COORDS[0, 0] = -0.5\nreturn rectangle_center + (RECTANGLE_COORDS * rectangle_lengths).dot(rectangle_axes)", ["R-FROZEN", "BOX_COORDS"]),
    M(["C20"], "frozen-triangles-mutated", FO, "contact_surface_forces", "triangles = []", "triangles = []\nTRIANGLES[:, 0] = 0", ["R-FROZEN", "TRIANGLES"]),
    M(["C20"], "eager-int-literal", CO, "Sphere.first_vertex", "return self.c + np.array([0, 0, self.radius], dtype=float)",
      "return support_function_sphere(np.array([0, 0, 1]), np.ascontiguousarray(self.c), self.radius)", ["R-EAGER", "Sphere.first_vertex"]),
    M(["C20"], "eager-column-arg", CO, "Capsule.first_vertex", "self.capsule2origin[:3, 3] - (self.radius + 0.5 * self.height) * self.capsule2origin[:3, 2]",
      "support_function_sphere(self.capsule2origin[:3, 2], self.capsule2origin[:3, 3], self.radius)", ["R-EAGER", "Capsule.first_vertex"]),
    M(["C20"], "eager-transposed-pose", CO, "Cone.support_function", "support_function_cone(search_direction, self.cone2origin, self.radius, self.height)",
      "support_function_cone(search_direction, self.cone2origin.T, self.radius, self.height)", ["R-EAGER", "Cone.support_function"]),
    M(["C20"], "eager-ndim", CO, "Ellipsoid.support_function", "support_function_ellipsoid(search_direction, self.ellipsoid2origin, self.radii)",
      "support_function_ellipsoid(search_direction, self.ellipsoid2origin[0], self.radii)", ["R-EAGER", "Ellipsoid.support_function"]),
]

_C01 = [
    M(["C01"], "jolt-support-same-dir", JO, "gjk_distance_jolt", "collider2.support_function(-search_direction)", "collider2.support_function(search_direction)", ["R-MINK", "gjk_distance_jolt", "negated"]),
    M(["C02"], "jolt-intersection-same-dir", JO, "gjk_intersection_jolt", "collider2.support_function(-search_direction)", "collider2.support_function(search_direction)", ["R-MINK", "gjk_intersection_jolt"]),
    M(["C01"], "jolt-diff-swapped", JO, "_distance_loop", "support_point = p - q", "support_point = q - p", ["R-MINK", "difference"]),
    M(["C02", "C08"], "mink-make-support-swapped", MK, "make_support_point", "return (v1 - v2, v1, v2)", "return (v2 - v1, v1, v2)", ["R-MINK", "make_support_point"]),
    M(["C02", "C08"], "mink-support-both-positive", MK, "support_function", "collider2.support_function(-search_direction)", "collider2.support_function(search_direction)", ["R-MINK", "minkowski::support_function"]),
    M(["C02"], "libccd-seed-swapped", LC, "_gjk", "make_support_point(collider1.first_vertex(), collider2.first_vertex())", "make_support_point(collider2.first_vertex(), collider1.first_vertex())", ["R-MINK", "seed"]),
    M(["C02"], "libccd-forward-swapped", LC, "_gjk", "support_function(collider1, collider2, search_direction)", "support_function(collider2, collider1, search_direction)", ["R-MINK", "forwards"]),
    M(["C01"], "par-q-row-missing", JO, "_distance_loop", "Q[n_points] = q", "", ["R-PAR", "_distance_loop"]),
    M(["C01"], "par-q-stores-p", JO, "_distance_loop", "Q[n_points] = q", "Q[n_points] = p", ["R-PAR", "_distance_loop"]),
    M(["C01"], "par-compact-q-wrong-row", JO, "update_simplex_ypq", "Q[n_new_points] = Q[i]", "Q[n_new_points] = Q[n_new_points]", ["R-PAR", "update_simplex_ypq"]),
    M(["C01"], "par-bit-test", JO, "update_simplex_ypq", "simplex & 1 << i", "simplex & 1 << n_new_points", ["R-PAR", "keep rows"]),
    M(["C01"], "bary-weights-swapped-b", JO, "calculate_closest_points", "b = u * Q[0] + v * Q[1]", "b = v * Q[0] + u * Q[1]", ["R-BARY", "n_points == 2"]),
    M(["C01"], "bary-p-in-b", JO, "calculate_closest_points", "b = u * Q[0] + v * Q[1] + w * Q[2]", "b = u * Q[0] + v * P[1] + w * Q[2]", ["R-BARY", "n_points == 3"]),
    M(["C01"], "bary-y-order", JO, "calculate_closest_points", "get_barycentric_coordinates_plane(Y[0], Y[1], Y[2])", "get_barycentric_coordinates_plane(Y[0], Y[2], Y[1])", ["R-BARY", "n_points == 3"]),
    M(["C01", "C18"], "bitmap-acd-shift", JO, "closest_point_tetrahedron", "(new_set & 1) + ((new_set & 6) << 1)", "(new_set & 1) + ((new_set & 6) << 2)", ["R-BITMAP", "(a, c, d)"]),
    M(["C01", "C18"], "bitmap-adb-permuted", JO, "closest_point_tetrahedron", "(new_set & 1) + ((new_set & 2) << 2) + ((new_set & 4) >> 1)", "(new_set & 1) + ((new_set & 2) << 1) + ((new_set & 4) >> 0)", ["R-BITMAP", "(a, d, b)"]),
    M(["C01", "C18"], "bitmap-bdc-args", JO, "closest_point_tetrahedron", "closest_point_triangle(b, d, c)", "closest_point_triangle(b, c, d)", ["R-BITMAP", "closest_point_triangle(b, c, d)"]),
    M(["C01", "C18"], "bitmap-line-ac", JO, "closest_point_triangle", "(new_set & 1) + ((new_set & 2) << 1)", "new_set", ["R-BITMAP", "closest_point_line(a, c)"]),
    M(["C01", "C18"], "bitmap-nonstrict", JO, "closest_point_tetrahedron", "dist_sq < best_dist_sq", "dist_sq <= best_dist_sq", ["R-BITMAP", "point-with-mask"], nth=1),
    M(["C01", "C18"], "bitmap-point-not-adopted", JO, "closest_point_tetrahedron", "closest_point = q", "", ["R-BITMAP", "point-with-mask"], nth=0),
    M(["C01", "C18"], "maskpoint-edge-ab", JO, "closest_point_triangle", "return (a + v * ab, 3)", "return (a + v * ab, 5)", ["R-MASKPOINT"]),
    M(["C01", "C18"], "maskpoint-vertex-c", JO, "closest_point_triangle", "return (c, 4)", "return (b, 4)", ["R-MASKPOINT"]),
    M(["C01", "C18"], "maskpoint-line", JO, "closest_point_line", "return (b, 2)", "return (b, 1)", ["R-MASKPOINT", "closest_point_line"]),
    M(["C01", "C18"], "planes-entry-face", JO, "origin_outside_of_tetrahedron_planes", "signp1 = a.dot(ac_cross_ad)", "signp1 = a.dot(ad_cross_ab)", ["R-PLANES", "entry 1"]),
    M(["C01", "C18"], "planes-opposite", JO, "origin_outside_of_tetrahedron_planes", "signd0 = ad.dot(ab_cross_ac)", "signd0 = ab.dot(ab_cross_ac)", ["R-PLANES", "entry 0", "opposite"]),
    M(["C01", "C18"], "planes-sign-of-a", JO, "origin_outside_of_tetrahedron_planes", "signd3 = -ab.dot(bd_cross_bc)", "signd3 = ab.dot(bd_cross_bc)", ["R-PLANES", "entry 3"]),
    M(["C01", "C18"], "planes-guard-index", JO, "closest_point_tetrahedron", "origin_out_of_planes[2]", "origin_out_of_planes[1]", ["R-PLANES"], nth=0),
    M(["C01", "C18"], "dispatch-y-order", JO, "get_closest_point_to_origin", "closest_point_triangle(Y[0], Y[1], Y[2])", "closest_point_triangle(Y[0], Y[2], Y[1])", ["R-SOLVERDISPATCH", "3 points"]),
    M(["C01", "C18"], "dispatch-accept-nonstrict", JO, "get_closest_point_to_origin", "v_len_sq < prev_v_len_sqr", "v_len_sq <= prev_v_len_sqr", ["R-SOLVERDISPATCH", "accept"]),
]

_C18 = [
    M(["C18", "C09"], "johnson-face-weights-permuted", OR, "_backup_procedure_tetrahedron", "solution_d.from_face(simplex, [0, 3, 2], d.d[0, 12], d.d[3, 12], d.d[2, 12])",
      "solution_d.from_face(simplex, [0, 3, 2], d.d[0, 12], d.d[2, 12], d.d[3, 12])", ["R-JOHNSON", "(0, 2, 3)", "weight order"]),
    M(["C18", "C09"], "johnson-wrong-column", OR, "_backup_procedure_tetrahedron", "solution_d.from_face(simplex, [0, 1, 3], d.d[0, 11], d.d[1, 11], d.d[3, 11])",
      "solution_d.from_face(simplex, [0, 1, 3], d.d[0, 12], d.d[1, 12], d.d[3, 12])", ["R-JOHNSON", "(0, 1, 3)"]),
    M(["C18", "C09"], "johnson-ordered-indices", OR, "_backup_procedure_tetrahedron", "ordered_indices[:2] = (3, 1)", "ordered_indices[:2] = (1, 3)", ["R-JOHNSON", "(1, 3)", "records"]),
    M(["C18", "C09"], "johnson-n-points", OR, "_backup_procedure_face", "n_simplex_points = 3", "n_simplex_points = 2", ["R-JOHNSON", "(0, 1, 2)", "records"]),
    M(["C18", "C09"], "johnson-nonstrict", OR, "_backup_procedure_face", "solution_d.distance_squared < solution.distance_squared", "solution_d.distance_squared <= solution.distance_squared", ["R-JOHNSON", "strict"], nth=1),
    M(["C18", "C09"], "johnson-guard-column", OR, "_backup_procedure_tetrahedron", "d.check_face_013_of_tetrahedron()", "d.check_face_023_of_tetrahedron()", ["R-JOHNSON", "(0, 1, 3)", "guard"], nth=0),
    M(["C18", "C09"], "johnson-vertex-wrong-diag", OR, "_backup_procedure_tetrahedron", "check_vertex_4 = simplex.dot_product_table[3, 3] < solution.distance_squared",
      "check_vertex_4 = simplex.dot_product_table[2, 2] < solution.distance_squared", ["R-JOHNSON", "(3,)"]),
    M(["C18", "C09"], "johnson-vertex-record", OR, "_backup_procedure_face", "ordered_indices[0] = 2", "ordered_indices[0] = 1", ["R-JOHNSON", "(2,)"]),
    M(["C18", "C09"], "exhaustive-missing-edge", OR, "_backup_procedure_tetrahedron",
      "if d.check_line_segment_23_of_tetrahedron():\n    solution_d.from_line_segment(simplex, [2, 3], d.d[2, 10], d.d[3, 10])\n    if solution_d.distance_squared < solution.distance_squared:\n        n_simplex_points = 2\n        solution.copy_from(solution_d, n_simplex_points)\n        ordered_indices[:2] = (2, 3)",
      "", ["R-EXHAUSTIVE", "_backup_procedure_tetrahedron"]),
    M(["C18", "C09"], "exhaustive-missing-vertex", OR, "_backup_procedure_face",
      "check_vertex_3 = simplex.dot_product_table[2, 2] < solution.distance_squared\nif check_vertex_3:\n    n_simplex_points = 1\n    solution.from_vertex(simplex, 2)\n    ordered_indices[0] = 2",
      "", ["R-EXHAUSTIVE", "_backup_procedure_face"]),
    M(["C18", "C09"], "johnson-from-face-order", OR, "Solution.from_face", "self.barycentric_coordinates[1] = b / coords_sum", "self.barycentric_coordinates[1] = c / coords_sum", ["R-JOHNSON", "Solution.from_face"]),
    M(["C18", "C09"], "johnson-cofactor-store-row", OR, "BarycentricCoordinates.tetrahedron_coordinates_4", "self.d[2, 12] = self.d[0, 8] * self.d[2, 4] + self.d[3, 8] * e134",
      "self.d[1, 12] = self.d[0, 8] * self.d[2, 4] + self.d[3, 8] * e134", ["R-JOHNSON"]),
]

_C09 = [
    M(["C09", "C02"], "infl-unconditional", NE, "gjk_nesterov_accelerated", "specialized and (type(collider0) == Sphere or type(collider0) == Capsule)", "type(collider0) == Sphere or type(collider0) == Capsule", ["R-INFL", "side 0"]),
    M(["C09", "C02"], "infl-cylinder", NE, "gjk_nesterov_accelerated", "specialized and (type(collider1) == Sphere or type(collider1) == Capsule)", "specialized and (type(collider1) == Sphere or type(collider1) == Capsule or type(collider1) == Cylinder)", ["R-INFL", "side 1"]),
    M(["C09", "C02"], "infl-capsule-forgotten", NE, "gjk_nesterov_accelerated", "specialized and (type(collider0) == Sphere or type(collider0) == Capsule)", "specialized and type(collider0) == Sphere", ["R-INFL", "Capsule"]),
    M(["C09", "C02"], "infl-prim-capsule-forgotten", NP_, "gjk_nesterov_accelerated_primitives", "type(collider1) == Sphere or type(collider1) == Capsule", "type(collider1) == Sphere", ["R-INFL", "primitives", "Capsule"]),
    M(["C09", "C02"], "infl-sphere-support-uses-radius", NE, "select_support", "return (sphere_support(), True)", "return (np.array([0.0, 0.0, collider.radius]), True)", ["R-INFL", "Sphere"]),
    M(["C09", "C02"], "infl-wrong-side", NE, "gjk_nesterov_accelerated", "inflation += collider1.radius", "inflation += collider0.radius", ["R-INFL"]),
    M(["C09", "C02"], "dispatch-codes-swapped", NP_, "select_support", "return capsule_support(dir, data)", "return box_support(dir, data)", ["R-DISPATCH", "code 1"]),
    M(["C09", "C02"], "dispatch-cylinder-slots", NP_, "get_data_from_collider", "return (np.array([h, r, 0.0]), 4)", "return (np.array([r, h, 0.0]), 4)", ["R-DISPATCH", "Cylinder"]),
    M(["C09", "C02"], "dispatch-capsule-full-height", NP_, "get_data_from_collider", "h = collider.height / 2", "h = collider.height", ["R-DISPATCH", "Capsule", "half"]),
    M(["C09", "C02"], "dispatch-ellipsoid-order", NP_, "get_data_from_collider", "return (np.array([a2, b2, c2]), 3)", "return (np.array([a2, c2, b2]), 3)", ["R-DISPATCH", "Ellipsoid"]),
    M(["C09", "C02"], "dtree-condition", NP_, "project_line_origin", "d < 0", "d <= 0", ["R-DTREE", "project_line_origin"]),
    M(["C09", "C02"], "dtree-leaf", NE, "project_tetra_to_origin", "ray, simplex_len = region_ad(tetra, a_index, d_index, a, d, da_aa)", "ray, simplex_len = region_ac(tetra, a_index, c_index, a, c, ca_aa)", ["R-DTREE", "project_tetra_to_origin"], nth=0),
    M(["C09", "C02"], "dtree-region-body", NP_, "origin_to_segment", "ray = (ab.dot(b) * a + ab_dot_a0 * b) / ab.dot(ab)", "ray = (ab.dot(b) * a - ab_dot_a0 * b) / ab.dot(ab)", ["R-DTREE", "origin_to_segment"]),
    M(["C09"], "tuplerole-distance-index", NE, "gjk_nesterov_accelerated_distance", "gjk_nesterov_accelerated(collider1, collider2)[1]", "gjk_nesterov_accelerated(collider1, collider2)[3]", ["R-TUPLEROLE", "gjk_nesterov_accelerated_distance"]),
    M(["C09"], "tuplerole-no-clamp", NP_, "gjk_nesterov_accelerated_primitives_distance", "max(gjk_nesterov_accelerated_primitives(collider0, collider1)[1], 0.0)", "gjk_nesterov_accelerated_primitives(collider0, collider1)[1]", ["R-TUPLEROLE", "clamped"]),
    M(["C09"], "tuplerole-original-iterations", OR, "gjk_distance_iterations", "gjk_distance_original(collider1, collider2)[4]", "gjk_distance_original(collider1, collider2)[3]", ["R-TUPLEROLE", "gjk_distance_iterations"]),
    M(["C09"], "tuplerole-return-order", NE, "gjk_nesterov_accelerated", "return (inside, distance, simplex, i)", "return (inside, simplex, distance, i)", ["R-TUPLEROLE"]),
    M(["C09"], "tuplerole-jolt-iterations-args", JO, "gjk_distance_jolt_iterations",
      "_distance_loop(p, q, Y, P, Q, n_points, tolerance_sq, prev_v_len_sq, v_len_sq, search_direction, max_distance_squared)",
      "_distance_loop(q, p, Y, P, Q, n_points, tolerance_sq, prev_v_len_sq, v_len_sq, search_direction, max_distance_squared)", ["gjk_distance_jolt_iterations"]),
    M(["C09", "C02"], "nesterov-fallback-same-dir", NE, "support_function", "collider1.support_function(-dir)", "collider1.support_function(dir)", ["R-MINK", "support_function", "negated"]),
    M(["C09", "C02"], "nesterov-diff-swapped", NE, "gjk_nesterov_accelerated", "simplex[simplex_len] = s0 - s1", "simplex[simplex_len] = s1 - s0", ["R-MINK", "difference"]),
]

_C08 = [
    M(["C08"], "mpr-direction-not-normalised", MP, "_find_penetration_segment", "return (depth, norm_vector(penetration_direction), contact_position)", "return (depth, penetration_direction, contact_position)", ["R-UNITDIR", "_find_penetration_segment"]),
    M(["C08"], "mpr-info-direction-raw", MP, "_find_penetration_info", "return (depth, norm_vector(pdir), pos)", "return (depth, pdir, pos)", ["R-UNITDIR", "_find_penetration_info"]),
    M(["C08"], "mpr-depth-signed", MP, "_find_penetration_segment", "depth = np.linalg.norm(penetration_direction)", "depth = penetration_direction[0]", ["R-UNITDIR", "_find_penetration_segment"]),
    M(["C08"], "mpr-touch-direction", MP, "_find_penetration_touch", "penetration_direction = np.zeros(3)", "penetration_direction = v1[1]", ["R-UNITDIR", "_find_penetration_touch"]),
    M(["C08"], "mpr-unpack-order", MP, "mpr_penetration", "depth, penetration_direction, contact_position = _find_penetration_segment(portal.v, portal.v1, portal.v2)",
      "penetration_direction, depth, contact_position = _find_penetration_segment(portal.v, portal.v1, portal.v2)", ["R-UNITDIR"]),
    M(["C08"], "mpr-no-zero-on-touch", MP, "_penetration_info", "if abs(depth) < EPSILON:\n    penetration_direction = np.zeros(3)", "", ["R-UNITDIR", "zero vector when touching"]),
    M(["C08"], "mpr-face-v0", MP, "_penetration_info", "point_to_triangle(np.zeros(3), v[1:])", "point_to_triangle(np.zeros(3), v[:3])", ["R-UNITDIR", "portal face"]),
    M(["C08"], "mpr-contact-weights", MP, "_contact_position", "v2 = barycentric_coordinates.dot(v2)", "v2 = barycentric_coordinates[::-1].dot(v2)", ["R-UNITDIR", "same weights"]),
    M(["C08"], "mpr-par-rows", MP, "_expand_portal", "v[3], v1[3], v2[3] = (v4, v14, v24)", "v[3], v1[3], v2[2] = (v4, v14, v24)", ["R-PAR", "_expand_portal"]),
    M(["C08"], "mpr-par-sources", MP, "_iterate_discover_portal", "v[1], v1[1], v2[1] = (v[3], v1[3], v2[3])", "v[1], v1[1], v2[1] = (v[3], v1[3], v2[2])", ["R-PAR", "_iterate_discover_portal"]),
    M(["C08", "C02"], "mpr-seed-mixed", MP, "_find_origin_ray", "make_support_point(collider1.center(), collider2.center())", "make_support_point(collider1.center(), collider2.first_vertex())", ["R-MINK", "seed"]),
    M(["C08"], "mpr-forward-swapped", MP, "_find_penetration_info", "support_function(collider1, collider2, search_direction)", "support_function(collider2, collider1, search_direction)", ["R-MINK", "forwards"]),
]

GE = "distance3d/geometry.py"
CT = "distance3d/containment.py"
CTT = "distance3d/containment_test.py"
UT = "distance3d/utils.py"
BX = "distance3d/distance/_box.py"
LB = "distance3d/distance/_line_to_box.py"
CI = "distance3d/distance/_circle.py"
EL = "distance3d/distance/_ellipsoid.py"
CY = "distance3d/distance/_cylinder.py"
LI = "distance3d/distance/_line.py"

_C03 = [
    M(["C03", "C12"], "frame-cylinder-no-T", GE, "support_function_cylinder", "np.dot(cylinder2origin[:3, :3].T, search_direction)", "np.dot(cylinder2origin[:3, :3], search_direction)", ["R-FRAME", "support_function_cylinder"]),
    M(["C03", "C12"], "frame-cone-local-return", GE, "support_function_cone", "return transform_point(cone2origin, point_in_cone)", "return point_in_cone", ["R-FRAMERET", "support_function_cone"]),
    M(["C03", "C12"], "frame-box-double-transform", GE, "support_function_box", "return transform_point(box2origin, local_vertex)", "return transform_point(box2origin, transform_point(box2origin, local_vertex))", ["R-FRAME", "support_function_box"]),
    M(["C03", "C12"], "frame-ellipsoid-rotation-only", GE, "support_function_ellipsoid", "return transform_point(ellipsoid2origin, local_vertex)", "return np.dot(ellipsoid2origin[:3, :3].T, local_vertex)", ["R-FRAME", "support_function_ellipsoid"]),
    M(["C03", "C12"], "frame-transform-point-T", UT, "transform_point", "np.dot(A2B[:3, :3], point_in_A)", "np.dot(A2B[:3, :3].T, point_in_A)", ["R-FRAME", "transform_point"]),
    M(["C12", "C10"], "frame-inverse-no-T", UT, "inverse_transform_point", "RT = A2B[:3, :3].T", "RT = A2B[:3, :3]", ["R-FRAME", "inverse_transform_point"]),
    M(["C03", "C12"], "frame-mesh-first-vertex", CO, "MeshGraph.first_vertex", "np.dot(self.mesh2origin[:3, :3], self.vertices[0])", "np.dot(self.mesh2origin[:3, :3].T, self.vertices[0])", ["R-FRAME", "MeshGraph.first_vertex"]),
    M(["C03", "C12"], "frame-meshsupport-dir", ME, "MeshHillClimbingSupportFunction.__call__", "np.dot(self.mesh2origin[:3, :3].T, search_direction)", "np.dot(self.mesh2origin[:3, :3], search_direction)", ["R-FRAME", "MeshHillClimbingSupportFunction"]),
    M(["C03"], "sign-cylinder-flipped", GE, "support_function_cylinder", "local_dir[2] < 0.0", "local_dir[2] > 0.0", ["R-SIGNALIGN", "support_function_cylinder"]),
    M(["C03"], "sign-capsule-flipped", GE, "support_function_capsule", "local_vertex[2] += 0.5 * height", "local_vertex[2] -= 0.5 * height", ["R-SIGNALIGN", "support_function_capsule"]),
    M(["C03"], "sign-capsule-wrong-axis", GE, "support_function_capsule", "local_vertex[2] -= 0.5 * height", "local_vertex[1] -= 0.5 * height", ["R-SIGNALIGN", "support_function_capsule"]),
    M(["C03"], "sign-cylinder-radial-negative", GE, "support_function_cylinder", "d = radius / s", "d = -radius / s", ["R-SIGNALIGN", "support_function_cylinder"]),
    M(["C03"], "sign-sphere-negative", GE, "support_function_sphere", "vertex = center + search_direction / s_norm * radius", "vertex = center - search_direction / s_norm * radius", ["R-SIGNALIGN", "support_function_sphere"]) ,
    M(["C03"], "sign-cone-compare-flipped", GE, "support_function_cone", "np.dot(local_dir, disk_point) >= local_dir[2] * height", "np.dot(local_dir, disk_point) <= local_dir[2] * height", ["R-SIGNALIGN", "larger projection"]),
    M(["C03"], "sign-cone-apex-wrong", GE, "support_function_cone", "point_in_cone = np.array([0.0, 0.0, height])", "point_in_cone = np.array([0.0, height, 0.0])", ["R-SIGNALIGN", "support_function_cone"]),
    M(["C03"], "sign-disk-keeps-normal-comp", GE, "support_function_disk", "point[2] = 0.0", "point[1] = 0.0", ["R-AXIS", "disk"]),
    M(["C03"], "margin-unnormalised", CO, "Margin.support_function", "self.margin * norm_vector(search_direction)", "self.margin * search_direction", ["R-MARGIN", "support_function"]),
    M(["C03"], "margin-subtracted", CO, "Margin.support_function", "self.collider.support_function(search_direction) + self.margin * norm_vector(search_direction)",
      "self.collider.support_function(search_direction) - self.margin * norm_vector(search_direction)", ["R-MARGIN", "support_function"]),
    M(["C03"], "margin-center-not-delegated", CO, "Margin.center", "return self.collider.center()", "return self.collider.first_vertex()", ["R-MARGIN", "center"]),
    M(["C04"], "axis-cylinder-aabb", CT, "cylinder_aabb", "axis = cylinder2origin[:3, 2]", "axis = cylinder2origin[:3, 1]", ["R-AXIS", "cylinder"]),
    M(["C03"], "axis-cone-first-vertex", CO, "Cone.first_vertex", "self.height * self.cone2origin[:3, 2]", "self.height * self.cone2origin[:3, 0]", ["R-AXIS", "cone"]),
    M(["C03"], "aabbargs-swapped", CO, "Capsule.support_function", "support_function_capsule(search_direction, self.capsule2origin, self.radius, self.height)",
      "support_function_capsule(search_direction, self.capsule2origin, self.height, self.radius)", ["R-AABBARGS", "Capsule.support_function"]),
    M(["C04"], "aabbargs-wrong-shape", CO, "Cylinder.aabb", "cylinder_aabb(self.cylinder2origin, self.radius, self.length)", "capsule_aabb(self.cylinder2origin, self.radius, self.length)", ["R-AABBARGS", "Cylinder.aabb"]),
]

_C04 = [
    M(["C04"], "marginbox-both-added", CO, "Margin.aabb", "mins = aabb[:, 0] - self.margin", "mins = aabb[:, 0] + self.margin", ["R-MARGIN", "aabb"]),
    M(["C04"], "marginbox-columns", CO, "Margin.aabb", "maxs = aabb[:, 1] + self.margin", "maxs = aabb[:, 0] + self.margin", ["R-MARGIN", "aabb"]),
    M(["C04", "C12"], "aabb-capsule-local-center", CT, "capsule_aabb", "return (capsule2origin[:3, 3] - extent, capsule2origin[:3, 3] + extent)",
      "return (-extent, extent)", ["R-FRAMERET", "capsule_aabb"]) ,
    M(["C04", "C12"], "aabb-mesh-no-rotation", CO, "MeshGraph.aabb", "np.dot(self.vertices, self.mesh2origin[:3, :3].T)", "self.vertices", ["R-FRAME", "MeshGraph.aabb"]),
    M(["C04", "C12"], "aabb-mesh-wrong-T", CO, "MeshGraph.aabb", "np.dot(self.vertices, self.mesh2origin[:3, :3].T)", "np.dot(self.vertices, self.mesh2origin[:3, :3])", ["R-FRAME", "MeshGraph.aabb"]),
    M(["C04", "C12"], "degree-cylinder-extent", CT, "cylinder_aabb", "radius * np.sqrt(np.maximum(0.0, 1.0 - axis * axis))", "radius * radius * np.sqrt(np.maximum(0.0, 1.0 - axis * axis))", ["R-DEGREE", "cylinder_aabb"]),
    M(["C04", "C12"], "degree-ellipse-extent", CT, "ellipse_aabb", "np.sqrt((radii[0] * axes[0]) ** 2 + (radii[1] * axes[1]) ** 2)", "(radii[0] * axes[0]) ** 2 + (radii[1] * axes[1]) ** 2", ["R-DEGREE", "ellipse_aabb"]),
    M(["C04", "C12"], "degree-cone-e", CT, "cone_aabb", "1.0 - a * a / (height * height)", "1.0 - a * a / height", ["R-DEGREE", "cone_aabb"]),
]

_C12 = [
    M(["C12", "C10"], "degree-squared-distance-returned", LI, "_line_to_line", "math.sqrt(abs(dist_squared))", "abs(dist_squared)", ["R-", "line"]),
    M(["C12", "C11"], "degree-circle-critical-point", CI, "_case_general", "(radius_m0_squared * b1_squared) ** (2.0 / 3.0) - b1_squared", "m0_squared * b1_squared ** (2.0 / 3.0) - b1_squared", ["R-DEGREE", "_case_general"]),
    M(["C12", "C11"], "degree-cylinder-clip", CY, "point_to_cylinder", "np.clip(dist_to_plane, -0.5 * length, 0.5 * length)", "np.clip(dist_to_plane, -0.5, 0.5)", ["R-"]) ,
    M(["C12", "C10"], "frame-point-to-box-local", BX, "point_to_box", "closest_point = box2origin[:3, 3] + box2origin[:3, :3].dot(closest_point_in_box)", "closest_point = closest_point_in_box", ["R-FRAME", "point_to_box"]),
    M(["C12", "C10"], "frame-point-to-box-world-clip", BX, "point_to_box", "np.clip(point_in_box, -half_size, half_size)", "np.clip(point, -half_size, half_size)", ["R-FRAME", "point_to_box"]),
    M(["C12", "C10"], "frame-line-to-box-direction", LB, "_line_to_box", "direction_in_box = origin2box[:3, :3].dot(line_direction)", "direction_in_box = box2origin[:3, :3].dot(line_direction)", ["R-FRAME", "_line_to_box"]),
    M(["C12", "C10"], "frame-ellipsoid-return-local", EL, "point_to_ellipsoid", "ellipsoid2origin[:3, 3] + ellipsoid2origin[:3, :3].dot(closest_point_in_ellipsoid)", "ellipsoid2origin[:3, 3] + closest_point_in_ellipsoid", ["R-FRAME", "point_to_ellipsoid"]),
    M(["C12", "C09"], "frame-nesterov-relative-pose", NE, "support_function", "oR1 = np.dot(collider02origin[:3, :3].T, collider12origin[:3, :3])", "oR1 = np.dot(collider02origin[:3, :3], collider12origin[:3, :3])", ["R-FRAME", "support_function"]),
    M(["C12"], "frame-invert-transform", UT, "invert_transform", "B2A[:3, 3] = -np.dot(RT, A2B[:3, 3])", "B2A[:3, 3] = -A2B[:3, 3]", ["R-FRAME", "invert_transform"]),
]

_C13 = [
    M(["C13"], "closed-sphere-strict", CTT, "points_in_sphere", "squared_dist <= radius * radius", "squared_dist < radius * radius", ["R-CLOSEDSET", "points_in_sphere"]),
    M(["C13"], "closed-cylinder-nonstrict-exclusion", CTT, "points_in_cylinder", "np.abs(dist_to_plane) > 0.5 * length", "np.abs(dist_to_plane) >= 0.5 * length", ["R-CLOSEDSET", "points_in_cylinder"]),
    M(["C13"], "closed-box-strict", CTT, "points_in_box", "np.abs(points) <= 0.5 * size", "np.abs(points) < 0.5 * size", ["R-CLOSEDSET", "points_in_box"]),
    M(["C13"], "closed-mesh-nonstrict", CTT, "points_in_convex_mesh", "normal_projected_points > 0.0", "normal_projected_points >= 0.0", ["R-CLOSEDSET", "points_in_convex_mesh"]),
    M(["C13"], "closed-batch-axis", CTT, "points_in_box", "np.all(np.abs(points) <= 0.5 * size, axis=1)", "np.all(np.abs(points) <= 0.5 * size, axis=0)", ["R-CLOSEDSET", "points_in_box"]),
    M(["C13", "C12"], "frame-box-test-no-T", CTT, "points_in_box", "np.dot(points, origin2box[:3, :3].T)", "np.dot(points, origin2box[:3, :3])", ["R-FRAME", "points_in_box"]),
    M(["C13", "C12"], "frame-ellipsoid-test-forward-pose", CTT, "points_in_ellipsoid", "origin2ellipsoid = invert_transform(ellipsoid2origin)", "origin2ellipsoid = ellipsoid2origin", ["R-FRAME", "points_in_ellipsoid"]),
    M(["C13", "C12"], "degree-sphere-test", CTT, "points_in_sphere", "squared_dist <= radius * radius", "squared_dist <= radius", ["R-DEGREE", "points_in_sphere"]),
    M(["C13", "C12"], "degree-cone-radii", CTT, "points_in_cone", "sqr_dist_in_plane > radii * radii", "sqr_dist_in_plane > radii", ["R-DEGREE", "points_in_cone"]),
]

_C16b = [
    M(["C16"], "frame-contact-surface-transform", "distance3d/hydroelastic_contact/_rigid_body.py", "RigidBody.express_in", "body2new_body = np.dot(origin2new_body, self.body2origin_)", "body2new_body = np.dot(self.body2origin_, origin2new_body)", ["R-FRAME", "express_in"]),
    M(["C16"], "frame-express-in-no-invert", "distance3d/hydroelastic_contact/_rigid_body.py", "RigidBody.express_in", "origin2new_body = invert_transform(new_body2origin)", "origin2new_body = new_body2origin", ["R-FRAME", "express_in"]),
]

BP = "distance3d/broad_phase.py"
SCF = "distance3d/self_collision.py"
_C06 = [
    M(["C06"], "bvh-aabb-before-update", BP, "BoundingVolumeHierarchy.update_collider_poses",
      "collider.update_pose(A2B)\nself.aabbtree_.insert_aabb(collider.aabb(), (frame, collider))", "self.aabbtree_.insert_aabb(collider.aabb(), (frame, collider))\ncollider.update_pose(A2B)", ["R-UPDATEORDER", "update_pose before"]),
    M(["C06"], "bvh-no-fresh-tree", BP, "BoundingVolumeHierarchy.update_collider_poses", "self.aabbtree_ = AabbTree()", "", ["R-UPDATEORDER", "fresh tree"]),
    M(["C06"], "bvh-wrong-target-frame", BP, "BoundingVolumeHierarchy.update_collider_poses", "self.tm.get_transform(frame, 'origin')", "self.tm.get_transform(frame, self.base_frame)", ["R-UPDATEORDER", "get_transform"]),
    M(["C06"], "bvh-inverse-lookup", BP, "BoundingVolumeHierarchy.update_collider_poses", "self.tm.get_transform(frame, 'origin')", "self.tm.get_transform('origin', frame)", ["R-UPDATEORDER", "get_transform"]),
    M(["C06"], "bvh-no-update-pose", BP, "BoundingVolumeHierarchy.update_collider_poses", "collider.update_pose(A2B)", "", ["R-UPDATEORDER", "update_pose before"]),
    M(["C06"], "bvh-payload-swapped", BP, "BoundingVolumeHierarchy.update_collider_poses", "(frame, collider)", "(collider, frame)", ["R-UPDATEORDER", "payload"]),
    M(["C06"], "bvh-add-collider-no-insert", BP, "BoundingVolumeHierarchy.add_collider", "self.aabbtree_.insert_aabb(collider.aabb(), (frame, collider))", "", ["R-UPDATEORDER", "add_collider"]),
    M(["C06"], "bvh-pairs-swapped", BP, "BoundingVolumeHierarchy.aabb_overlapping_with_other_bvh", "other_bvh.aabbtree_.external_data_list[pair[1]]", "other_bvh.aabbtree_.external_data_list[pair[0]]", ["R-PAYLOAD", "other_bvh"]),
    M(["C06"], "bvh-self-skip-wrong", BP, "BoundingVolumeHierarchy.aabb_overlapping_with_self", "pair[0] == pair[1]", "pair[0] >= pair[1]", ["R-PAYLOAD", "self pairs"]),
    M(["C06"], "bvh-whitelist-filter-all", BP, "BoundingVolumeHierarchy.aabb_overlapping_colliders", "for frame in whitelist:\n    colliders.pop(frame, None)", "for frame in list(colliders):\n    colliders.pop(frame, None)", ["R-PAYLOAD", "whitelisted"]),
    M(["C06"], "bvh-query-other-box", BP, "BoundingVolumeHierarchy.aabb_overlapping_colliders", "aabb = collider.aabb()", "aabb = self.aabbtree_.get_root_aabb()", ["R-PAYLOAD", "query box"]),
    M(["C06"], "sc-wrong-whitelist", SCF, "detect", "bvh.self_collision_whitelists_[frame]", "bvh.self_collision_whitelists_[frame2] if False else ()", ["R-WHITELIST", "detect|candidates"]),
    M(["C06"], "sc-marks-one-frame", SCF, "detect", "contacts[frame2] = True", "", ["R-WHITELIST", "marks both"]),
    M(["C06"], "sc-any-return-false-early", SCF, "detect_any", "return True", "return False", ["R-WHITELIST", "detect_any"]),
    M(["C06"], "sc-extra-filter", SCF, "detect", "if gjk.gjk_intersection(collider, collider2):\n    contacts[frame] = True\n    contacts[frame2] = True\n    break",
      "if frame < frame2 and gjk.gjk_intersection(collider, collider2):\n    contacts[frame] = True\n    contacts[frame2] = True\n    break", ["R-WHITELIST", "narrow phase"]),
    M(["C06"], "sc-same-collider-twice", SCF, "detect_any", "gjk.gjk_intersection(collider, collider2)", "gjk.gjk_intersection(collider, collider)", ["R-WHITELIST", "detect_any", "narrow phase"]),
    M(["C06", "C05"], "tree-one-child-c06", AT, "query_overlap", "stack.extend([nodes[node_index, 1], nodes[node_index, 2]])", "stack.extend([nodes[node_index, 2]])", ["R-TRAVERSE"]),
]

PL = "distance3d/distance/_plane.py"
TR = "distance3d/distance/_triangle.py"
RE = "distance3d/distance/_rectangle.py"
DK = "distance3d/distance/_disk.py"
DI = "distance3d/distance/__init__.py"
_C10 = [
    M(["C10"], "nonneg-signed-default", PL, "point_to_plane", "return _point_to_plane(point, plane_point, plane_normal, signed)", "return _point_to_plane(point, plane_point, plane_normal, True)", ["R-NONNEG", "point_to_plane"]),
    M(["C10"], "nonneg-plane-hull-signed", PL, "_plane_to_convex_hull_points", "return (abs(t), closest_point_plane, closest_point)", "return (t, closest_point_plane, closest_point)", ["R-NONNEG", "plane_to_"]),
    M(["C10"], "nonneg-line-line", LI, "_line_to_line", "math.sqrt(abs(dist_squared))", "dist_squared", ["R-"]),
    M(["C10"], "role-plane-forward-unswapped", PL, "_plane_to_convex_hull_points", "return (dist, closest_point_plane, closest_point)", "return (dist, closest_point, closest_point_plane)", ["R-ROLEAGREE"]),
    M(["C10", "C12"], "role-triangle-second-loop", TR, "triangle_to_triangle", "best_closest_point_triangle1 = closest_point_triangle", "best_closest_point_triangle1 = closest_point_segment", ["R-ROLE", "triangle_to_triangle"], nth=0),
    M(["C10", "C12"], "role-rect-rect-unswapped", RE, "rectangle_to_rectangle",
      "dist, closest_point_rectangle2, closest_point_rectangle1 = line_segment_to_rectangle(segment_start, segment_end, rectangle_center1, rectangle_axes1, rectangle_lengths1)",
      "dist, closest_point_rectangle1, closest_point_rectangle2 = line_segment_to_rectangle(segment_start, segment_end, rectangle_center1, rectangle_axes1, rectangle_lengths1)", ["R-ROLE", "rectangle_to_rectangle"]),
    M(["C10", "C12"], "role-tri-rect-unswapped", TR, "triangle_to_rectangle",
      "dist, closest_point_rectangle, closest_point_triangle = line_segment_to_triangle(segment_start, segment_end, triangle_points)",
      "dist, closest_point_triangle, closest_point_rectangle = line_segment_to_triangle(segment_start, segment_end, triangle_points)", ["R-ROLE", "triangle_to_rectangle"]),
    M(["C10", "C12"], "role-segment-box-return", BX, "line_segment_to_box", "return (distance, closest_point_segment, closest_point_box)", "return (distance, closest_point_box, closest_point_segment)", ["R-ROLE", "line_segment_to_box"]),
    M(["C10", "C11"], "triple-best-of-partial", TR, "triangle_to_rectangle", "best_closest_point_rectangle = closest_point_rectangle", "", ["R-TRIPLE", "triangle_to_rectangle"], nth=0),
    M(["C10", "C11"], "triple-endpoint-mixed", TR, "line_segment_to_triangle", "closest_point_segment = segment_end", "closest_point_segment = segment_start", ["R-TRIPLE", "line_segment_to_triangle"]),
    M(["C10", "C11"], "triple-endpoint-no-point", BX, "line_segment_to_box", "closest_point_segment = segment_start", "", ["R-TRIPLE", "line_segment_to_box"]),
    M(["C10", "C11"], "triple-distance-not-adopted", RE, "_line_to_rectangle", "best_dist = dist", "", ["R-TRIPLE", "_line_to_rectangle"]),
    M(["C10"], "hang-while-no-increment", TR, "triangle_to_triangle", "i1 += 1", "i1 += 0", ["R-HANG", "triangle_to_triangle"], nth=1),
    M(["C10"], "api-missing-export", DI, None, "from ._cylinder import point_to_cylinder", "point_to_cylinder = None", ["R-API", "point_to_cylinder"]),
    M(["C10", "C20"], "eager-segment-view", DK, "disk_to_disk", "point_to_disk(center1, center2, radius2, normal2)", "point_to_disk(center1[::-1], center2, radius2, normal2)", ["R-EAGER", "disk_to_disk"]),
]

_C11 = [
    M(["C11"], "features-triangle-start", TR, "_line_to_triangle", "i0 = 2", "i0 = 1", ["R-FEATURES", "_line_to_triangle"]),
    M(["C11"], "features-triangle-bound", TR, "triangle_to_rectangle", "i1 < 3", "i1 < 2", ["R-"]),
    M(["C11"], "features-triangle-no-wrap", TR, "triangle_to_triangle", "i0 = i1", "i0 = 2", ["R-FEATURES", "triangle_to_triangle"], nth=0),
    M(["C11"], "features-rect-one-axis", RE, "_line_to_rectangle", "convert_rectangle_to_segment(rectangle_center, rectangle_extents, i0, i1)", "convert_rectangle_to_segment(rectangle_center, rectangle_extents, i0, i0)", ["R-FEATURES", "_line_to_rectangle"]),
    M(["C11"], "features-rect-range1", RE, "rectangle_to_rectangle", "range(2)", "range(1)", ["R-FEATURES", "rectangle_to_rectangle"], nth=0),
    M(["C11"], "features-box-one-sign", BX, "_rectangle_to_box_faces", "[-1, 1]", "[1]", ["R-FEATURES", "_rectangle_to_box_faces"]),
    M(["C11"], "features-box-two-axes", BX, "_rectangle_to_box_faces", "range(3)", "range(2)", ["R-FEATURES", "_rectangle_to_box_faces"]),
    M(["C11"], "features-early-break", RE, "rectangle_to_rectangle", "if dist <= epsilon:\n    break", "if dist <= best_dist:\n    break", ["R-FEATURES", "early exit"], nth=0),
    M(["C11"], "features-vertices-partial", BX, "_rectangle_points_in_box", "range(len(rectangle_points))", "range(2)", ["R-FEATURES", "all rectangle vertices"]),
    M(["C11"], "clamp-one-end", TR, "line_segment_to_triangle", "point_to_triangle(segment_end, triangle_points)", "point_to_triangle(segment_start, triangle_points)", ["R-"]),
]

_C20b = [
    M(["C20"], "emptyfill-invert-transform", UT, "invert_transform", "B2A[3, 3] = 1.0", "", ["R-EMPTYFILL", "invert_transform"]),
    M(["C20"], "emptyfill-invert-transform-row", UT, "invert_transform", "B2A[3, :3] = 0.0", "B2A[3, :2] = 0.0", ["R-EMPTYFILL", "invert_transform"]),
    M(["C20"], "emptyfill-barycentric", GE, "barycentric_coordinates_tetrahedron", "result[2] = scalar_triple_product(ap, a_to_bcd[2], a_to_bcd[0])", "result[1] = scalar_triple_product(ap, a_to_bcd[2], a_to_bcd[0])", ["R-EMPTYFILL", "barycentric_coordinates_tetrahedron"]),
    M(["C20"], "emptyfill-com-homogeneous", FO, "compute_contact_force", "com[3] = 1.0", "", ["R-EMPTYFILL", "compute_contact_force"]),
    M(["C20"], "emptyfill-triangles", FO, "tesselate_ordered_polygon", "triangles[:, 0] = 0", "", ["R-EMPTYFILL", "tesselate_ordered_polygon"]),
]

JO = "distance3d/gjk/_gjk_jolt.py"
ME = "distance3d/mesh.py"
RB = "distance3d/hydroelastic_contact/_rigid_body.py"
MP = "distance3d/mpr.py"
_SEEDLIKE = [
    M(["C09"], "simplexinfo-move-vertex-partial", "distance3d/gjk/_gjk_original.py", "SimplexInfo._move_vertex", "self.indices_polytope2[new_index] = self.indices_polytope2[old_index]", "", ["R-PARALLEL", "_move_vertex"]),
    M(["C09"], "simplexinfo-reorder-wrong-source", "distance3d/gjk/_gjk_original.py", "SimplexInfo.reorder", "self.indices_polytope2[ordered_indices]", "self.indices_polytope1[ordered_indices]", ["R-PARALLEL", "reorder"]),
    M(["C09"], "simplexinfo-first-point-swapped", "distance3d/gjk/_gjk_original.py", "SimplexInfo.set_first_point", "self.indices_polytope1[0] = new_index1", "self.indices_polytope1[0] = new_index2", ["R-PARALLEL", "set_first_point"]),
    M(["C09"], "simplexinfo-last-spot-row", "distance3d/gjk/_gjk_original.py", "SimplexInfo._move_first_point_to_last_spot", "self.points[self.n_simplex_points] = self.points[0]", "self.points[self.n_simplex_points] = self.points[1]", ["R-PARALLEL", "_move_first_point_to_last_spot"]),
    M(["C09"], "dottable-face-wrong-entry", "distance3d/gjk/_gjk_original.py", "SimplexInfo.select_face", "self.dot_product_table[2, 1] = self.dot_product_table[idx1, idx2]", "self.dot_product_table[2, 0] = self.dot_product_table[idx1, idx2]", ["R-DOTTABLE", "select_face"], nth=0),
    M(["C09"], "dottable-selector-orientation", "distance3d/gjk/_gjk_original.py", "SimplexInfo.select_face", "(k, i) if i < k else (i, k)", "(i, k) if i < k else (k, i)", ["R-DOTTABLE", "select_face"]),
    M(["C09"], "dottable-segment-diagonal", "distance3d/gjk/_gjk_original.py", "SimplexInfo.select_line_segment", "self.dot_product_table[1, 1] = self.dot_product_table[j, j]", "self.dot_product_table[1, 1] = self.dot_product_table[i, i]", ["R-DOTTABLE", "select_line_segment"]),
    M(["C09"], "dottable-face-selector-pair", "distance3d/gjk/_gjk_original.py", "SimplexInfo.select_face", "(j, k) if k < j else (k, j)", "(j, i) if i < j else (i, j)", ["R-DOTTABLE", "select_face"], nth=0),
    M(["C15", "C16"], "hydro-forces-unpack-swapped", "distance3d/hydroelastic_contact/_forces.py", "contact_surface_forces",
      "(coms[intersection_idx], forces[intersection_idx], areas[intersection_idx], triangle)", "(forces[intersection_idx], coms[intersection_idx], areas[intersection_idx], triangle)", ["R-UNPACK", "contact_surface_forces"]),
    M(["C05", "C06"], "tree-insert-unpack-swapped", "distance3d/aabb_tree.py", "insert_aabbs", "(root, nodes, aabbs, filled_len)", "(root, aabbs, nodes, filled_len)", ["R-"]),
    M(["C15", "C16"], "hydro-x2-from-body1", "distance3d/hydroelastic_contact/_interface.py", "find_contact_surface", "rigid_body2.tetrahedra_points[broad_tetrahedra2]", "rigid_body1.tetrahedra_points[broad_tetrahedra2]", ["R-SIDES", "find_contact_surface"]),
    M(["C15", "C16"], "hydro-potentials-twice-body1", "distance3d/hydroelastic_contact/_interface.py", "find_contact_surface", "rigid_body2.tetrahedra_potentials", "rigid_body1.tetrahedra_potentials", ["R-SIDES", "find_contact_surface"]),
    M(["C15", "C16"], "hydro-pair-x-swapped", TI, "intersect_tetrahedron_pair", "contact_plane(X1, X2, epsilon1, epsilon2, youngs_modulus1, youngs_modulus2)", "contact_plane(X1, X2, epsilon2, epsilon1, youngs_modulus1, youngs_modulus2)", ["R-SIDES", "contact_plane"]),
    M(["C15"], "hydro-plane-distances-same-tetra", TI, "check_tetrahedra_intersect_contact_plane", "plane_distances2 = tetrahedron2.dot(plane_normal) - d", "plane_distances2 = tetrahedron1.dot(plane_normal) - d", ["R-"]),
    M(["C10"], "box-clip-full-size", "distance3d/distance/_box.py", "point_to_box", "half_size = 0.5 * size", "half_size = size", ["R-CLIPSYM", "point_to_box"]),
    M(["C10"], "rect-clip-one-sided", "distance3d/distance/_rectangle.py", "point_to_rectangle", "np.clip(rectangle_coordinates, -rectangle_half_lengths, rectangle_half_lengths)", "np.clip(rectangle_coordinates, 0.0, rectangle_half_lengths)", ["R-CLIPSYM", "point_to_rectangle"]),
    M(["C10"], "linebox-case000-clip-asym", "distance3d/distance/_line_to_box.py", "_case_000", "np.clip(point_in_box, -box_half_size, box_half_size)", "np.clip(point_in_box, -box_half_size, 2.0 * box_half_size)", ["R-CLIPSYM", "_case_000"]),
    M(["C10"], "segment-param-no-upper-clamp", "distance3d/distance/_line.py", "point_to_line_segment", "t = min(max(t, 0.0), 1.0)", "t = max(t, 0.0)", ["R-ONSEGMENT", "point_to_line_segment"]),
    M(["C10"], "segment-param-clamp-dropped", "distance3d/distance/_line.py", "_line_segment_to_line_segment", "s = min(max(-c / a, 0.0), 1.0)", "s = -c / a", ["R-ONSEGMENT", "_line_segment_to_line_segment"], nth=1),
    M(["C10"], "segment-param-upper-test-weak", "distance3d/distance/_line.py", "_line_segment_to_line_segment", "t > 1.0", "t > 2.0", ["R-ONSEGMENT", "_line_segment_to_line_segment"]),
    M(["C10"], "segment-param-lower-test-dropped", "distance3d/distance/_line.py", "_line_segment_to_line_segment", "if t < 0.0:\n    t = 0.0\n    s = min(max(-c / a, 0.0), 1.0)\nelif t > 1.0:\n    t = 1.0\n    s = min(max((b - c) / a, 0.0), 1.0)",
      "if t > 1.0:\n    t = 1.0\n    s = min(max((b - c) / a, 0.0), 1.0)", ["R-ONSEGMENT", "_line_segment_to_line_segment"]),
    M(["C10"], "segment-plane-range-one-sided", "distance3d/distance/_plane.py", "_line_segment_to_plane", "0 <= t <= segment_length", "0 <= t", ["R-ONSEGMENT", "_line_segment_to_plane"]),
    M(["C10"], "line-segment-param-degenerate-unclamped", "distance3d/distance/_line.py", "_line_to_line_segment", "s = min(max(-c / a, 0.0), 1.0)", "s = max(-c / a, 0.0)", ["R-ONSEGMENT", "_line_to_line_segment"]),
    M(["C02"], "libccd-triangle-ac-wrong-row", "distance3d/gjk/_gjk_libccd.py", "_triangle", "_set_point(v, v1, v2, 1, *A)", "_set_point(v, v1, v2, 0, *A)", ["R-DOSIMPLEX", "_triangle"]),
    M(["C02"], "libccd-triangle-ab-direction", "distance3d/gjk/_gjk_libccd.py", "_triangle_ab", "_triple_cross(AB, AO, AB)", "_triple_cross(AB, AO, AO)", ["R-DOSIMPLEX"]),
    M(["C02"], "libccd-triangle-ab-keeps-wrong-vertex", "distance3d/gjk/_gjk_libccd.py", "_triangle_ab", "_set_point(v, v1, v2, 0, *B)", "_set_point(v, v1, v2, 0, *A)", ["R-DOSIMPLEX"], nth=0),
    M(["C02"], "libccd-triangle-below-no-swap", "distance3d/gjk/_gjk_libccd.py", "_triangle", "_set_point(v, v1, v2, 1, *C)", "_set_point(v, v1, v2, 1, *B)", ["R-DOSIMPLEX", "_triangle"]),
    M(["C02"], "libccd-line-a-region-count", "distance3d/gjk/_gjk_libccd.py", "_line_segment", "n_points = 1", "n_points = 2", ["R-DOSIMPLEX", "_line_segment"]),
    M(["C02"], "libccd-tetra-wrong-face", "distance3d/gjk/_gjk_libccd.py", "_rearrange_simplex_to_triangle", "_set_point(v, v1, v2, 1, *D)", "_set_point(v, v1, v2, 1, *C)", ["R-DOSIMPLEX", "face kept"]),
    M(["C02"], "libccd-tetra-side-test-plane", "distance3d/gjk/_gjk_libccd.py", "_tetrahedron", "np.sign(np.dot(ADB, AO)) == C_on_ADB", "np.sign(np.dot(ABC, AO)) == C_on_ADB", ["R-DOSIMPLEX"]),
    M(["C02"], "libccd-tetra-rows", "distance3d/gjk/_gjk_libccd.py", "_tetrahedron", "np.copy(v[2])", "np.copy(v[1])", ["R-DOSIMPLEX", "vertex rows"]),
    M(["C04"], "aabb-cylinder-radicand-unclamped", "distance3d/containment.py", "cylinder_aabb", "np.maximum(0.0, 1.0 - axis * axis)", "1.0 - axis * axis", ["R-SQRTDOMAIN", "cylinder_aabb"]),
    M(["C04"], "aabb-cone-radicand-unclamped", "distance3d/containment.py", "cone_aabb", "np.maximum(0.0, 1.0 - a * a / (height * height))", "1.0 - a * a / (height * height)", ["R-SQRTDOMAIN", "cone_aabb"]),
    M(["C20", "C10"], "line-line-sqrt-no-abs", "distance3d/distance/_line.py", "_line_to_line", "math.sqrt(abs(dist_squared))", "math.sqrt(dist_squared)", ["R-SQRTDOMAIN", "_line_to_line"]),
    M(["C13", "C12"], "mesh-test-flip-normals-by-origin", "distance3d/containment_test.py", "points_in_convex_mesh", "face_centers = np.mean(faces, axis=1)",
      "face_centers = np.mean(faces, axis=1)\nface_normals[np.sum(face_normals * face_centers, axis=1) < 0.0] *= -1.0", ["R-ORIGINFREE", "points_in_convex_mesh"]),
    M(["C13", "C12"], "mesh-test-origin-halfspace", "distance3d/containment_test.py", "points_in_convex_mesh", "point[np.newaxis] - face_centers", "point[np.newaxis]", ["R-", "points_in_convex_mesh"]),
    M(["C03", "C13", "C12"], "convex-mesh-not-centred", "distance3d/mesh.py", "make_convex_mesh", "vertices = vertices - np.mean(vertices, axis=0)", "", ["R-ORIGINFREE", "make_convex_mesh"]),
    M(["C01", "C02", "C18"], "jolt-tetra-stale-min-acd", JO, "closest_point_tetrahedron", "best_dist_sq = dist_sq", "", ["R-RUNMIN", "closest_point_tetrahedron"], nth=0),
    M(["C01", "C02", "C18"], "jolt-tetra-stale-min-adb", JO, "closest_point_tetrahedron", "best_dist_sq = dist_sq", "", ["R-RUNMIN", "closest_point_tetrahedron"], nth=1),
    M(["C01", "C02", "C18"], "jolt-triangle-stale-min", JO, "closest_point_triangle", "best_dist_sq = dist_sq", "", ["R-RUNMIN", "closest_point_triangle"], nth=0),
    M(["C10", "C11"], "rect-rect-stale-min", "distance3d/distance/_rectangle.py", "rectangle_to_rectangle", "best_dist = dist", "", ["R-RUNMIN", "rectangle_to_rectangle"], nth=1),
    M(["C08"], "mpr-expand-preimage-twice", "distance3d/mpr.py", "_refine_portal", "_expand_portal(portal.v, portal.v1, portal.v2, next_support_point, next_support_point1, next_support_point2)",
      "_expand_portal(portal.v, portal.v1, portal.v2, next_support_point, next_support_point1, next_support_point1)", ["R-PAR", "call _expand_portal"]),
    M(["C08"], "mpr-expand-portal-rows-mixed", "distance3d/mpr.py", "_find_penetration_info", "_expand_portal(portal.v, portal.v1, portal.v2, next_support_point, next_support_point1, next_support_point2)",
      "_expand_portal(portal.v, portal.v2, portal.v1, next_support_point, next_support_point1, next_support_point2)", ["R-PAR", "call _expand_portal"]),
    M(["C06"], "bvh-update-only-if-moved", "distance3d/broad_phase.py", "BoundingVolumeHierarchy.update_collider_poses", "collider.update_pose(A2B)",
      "if not np.array_equal(A2B, collider.collider2origin()):\n    collider.update_pose(A2B)", ["R-UPDATEORDER", "unconditionally"]),
    M(["C06"], "bvh-skip-some-colliders", "distance3d/broad_phase.py", "BoundingVolumeHierarchy.update_collider_poses", "collider = self.colliders_[frame]",
      "collider = self.colliders_[frame]\nif collider.artist_ is None:\n    continue", ["R-UPDATEORDER", "unconditionally"]),
    M(["C10"], "circle-argmax-signed", "distance3d/distance/_circle.py", "_line_segment_to_circle",
      "comparison_dimensions = np.where(segment_direction != 0.0)[0]\nassert len(comparison_dimensions) > 0\ncomparison_dimension = comparison_dimensions[0]",
      "comparison_dimension = np.argmax(segment_direction)", ["R-SELCOMP"]),
    M(["C10"], "circle-nonzero-test-inverted", "distance3d/distance/_circle.py", "_line_segment_to_circle", "segment_direction != 0.0", "segment_direction == 0.0", ["R-SELCOMP"]),
    M(["C10"], "circle-fixed-component", "distance3d/distance/_circle.py", "_line_segment_to_circle", "comparison_dimension = comparison_dimensions[0]", "comparison_dimension = len(comparison_dimensions) - 1", ["R-SELCOMP"]),
    M(["C10", "C11"], "boxface-leaf-store-sign", LBX, "_box_face", "point_in_box[i2] = -box_half_size[i2]", "point_in_box[i2] = box_half_size[i2]", ["R-BOXFACE"], nth=0),
    M(["C10", "C11"], "boxface-delta-wrong-offset", LBX, "_box_face", "direction_in_box[i1] * point_m_edge[i1]", "direction_in_box[i1] * point_p_edge[i1]", ["R-BOXFACE"], nth=0),
    M(["C10", "C11"], "boxface-copy-stale-index", LBX, "_box_face", "tmp <= 2.0 * l_sqr * box_half_size[i1]", "tmp <= 2.0 * l_sqr * box_half_size[i2]", ["R-BOXFACE", "re-uses the i1-edge"], nth=1),
    M(["C10", "C11"], "boxface-one-sided-lsqr", LBX, "_box_face", "l_sqr += direction_in_box[i2] * direction_in_box[i2]", "l_sqr += direction_in_box[i1] * direction_in_box[i1]", ["R-BOXFACE"], nth=0),
    M(["C10", "C11"], "linebox-case0-axes-swapped", LBX, "_line_to_box", "_case_0(0, 2, 1, point_in_box, direction_in_box, box_half_size)", "_case_0(0, 1, 2, point_in_box, direction_in_box, box_half_size)", ["R-CASEDISPATCH", "(+,0,+)"]),
    M(["C10", "C11"], "linebox-case00-wrong-axis", LBX, "_line_to_box", "_case_00(1, 0, 2, point_in_box, direction_in_box, box_half_size)", "_case_00(0, 1, 2, point_in_box, direction_in_box, box_half_size)", ["R-CASEDISPATCH", "(0,+,0)"]),
    M(["C10", "C11"], "linebox-test-wrong-component", LBX, "_line_to_box", "direction_in_box[2] > 0.0", "direction_in_box[1] > 0.0", ["R-CASEDISPATCH"], nth=1),
    M(["C10", "C11"], "linebox-face-wrong-winner", LBX, "_case_no_zeros", "_box_face(2, 0, 1, point_in_box, direction_in_box, point_m_edge, box_half_size)", "_box_face(0, 1, 2, point_in_box, direction_in_box, point_m_edge, box_half_size)", ["R-TOURNAMENT", "leaf"], nth=0),
    M(["C10", "C11"], "linebox-comparison-not-antisymmetric", LBX, "_case_no_zeros", "prod_dz_py = direction_in_box[2] * point_m_edge[1]", "prod_dz_py = direction_in_box[2] * point_m_edge[0]", ["R-TOURNAMENT", "comparison"]),
    M(["C04"], "axis-capsule-aabb", "distance3d/containment.py", "capsule_aabb", "0.5 * height * np.abs(capsule2origin[:3, 2]) + radius", "0.5 * height * np.abs(capsule2origin[:3, 0]) + radius", ["R-AXIS", "capsule_aabb"]),
    M(["C04", "C12"], "aabb-cone-pose-row", "distance3d/containment.py", "cone_aabb", "cone2origin[:3, 3] + height * cone2origin[:3, 2]", "cone2origin[:3, 3] + height * cone2origin[2, :3]", ["R-", "cone_aabb"]),
    M(["C04"], "aabbargs-capsule-swapped", "distance3d/colliders.py", "Capsule.aabb", "capsule_aabb(self.capsule2origin, self.radius, self.height)", "capsule_aabb(self.capsule2origin, self.height, self.radius)", ["R-AABBARGS", "Capsule.aabb"]),
    M(["C04", "C12"], "degree-disk-extent", "distance3d/containment.py", "disk_aabb", "radius * np.sqrt(np.maximum(0.0, 1.0 - normal * normal))", "radius * radius * np.sqrt(np.maximum(0.0, 1.0 - normal * normal))", ["R-DEGREE", "disk_aabb"]),
    M(["C13"], "axis-cylinder-test", "distance3d/containment_test.py", "points_in_cylinder", "cylinder2origin[:3, 2]", "cylinder2origin[:3, 1]", ["R-AXIS", "points_in_cylinder"], nth=0),
    M(["C03", "C13"], "axis-capsule-support", "distance3d/geometry.py", "support_function_capsule", "local_dir[2] > 0.0", "local_dir[1] > 0.0", ["R-AXIS", "support_function_capsule"]),
    M(["C06", "C14"], "capsule-update-keeps-old-pose", "distance3d/colliders.py", "Capsule.update_pose", "self.capsule2origin = pose", "self.capsule2origin = self.capsule2origin", ["R-COHERENCE", "Capsule"]),
    M(["C06", "C14"], "meshgraph-update-no-pose", "distance3d/colliders.py", "MeshGraph.update_pose", "self.mesh2origin = mesh2origin", "", ["R-COHERENCE", "MeshGraph"]),
    M(["C01"], "clip-sign-guard-dropped", JO, "_distance_loop", "dot < 0.0 and dot * dot > v_len_sq * max_distance_squared", "dot * dot > v_len_sq * max_distance_squared", ["R-CLIPGUARD", "guarded by s < 0"]),
    M(["C01"], "clip-sign-guard-flipped", JO, "_distance_loop", "dot < 0.0", "dot > 0.0", ["R-CLIPGUARD", "guarded by s < 0"]),
    M(["C01"], "clip-or", JO, "_distance_loop", "dot < 0.0 and dot * dot > v_len_sq * max_distance_squared", "dot < 0.0 or dot * dot > v_len_sq * max_distance_squared", ["R-CLIPGUARD"]),
    M(["C01"], "clip-bound-inverted", JO, "_distance_loop", "dot * dot > v_len_sq * max_distance_squared", "dot * dot < v_len_sq * max_distance_squared", ["R-CLIPGUARD", "compares s^2"]),
    M(["C01"], "clip-not-projection", JO, "_distance_loop", "dot = search_direction.dot(support_point)", "dot = -np.linalg.norm(support_point)", ["R-CLIPGUARD", "s is dir.w"]),
    M(["C03", "C14"], "mesh-support-answers-from-cache", ME, "MeshHillClimbingSupportFunction.__call__",
      "idx = hill_climb_mesh_extreme(search_direction_in_mesh, self.first_idx, self.vertices, self.connections, self.shortcut_connections)",
      "idx = self.first_idx", ["R-QUERYSTATE", "MeshHillClimbingSupportFunction"]),
    M(["C03", "C14"], "mesh-support-cache-as-direction", ME, "MeshHillClimbingSupportFunction.__call__",
      "idx = hill_climb_mesh_extreme(search_direction_in_mesh, self.first_idx, self.vertices, self.connections, self.shortcut_connections)",
      "idx = hill_climb_mesh_extreme(search_direction_in_mesh, 0, self.vertices[self.first_idx:], self.connections, self.shortcut_connections)", ["R-QUERYSTATE", "MeshHillClimbingSupportFunction"]),
    M(["C14"], "mesh-update-pose-resets-hint", ME, "MeshHillClimbingSupportFunction.update_pose", "self.mesh2origin = mesh2origin", "self.mesh2origin = mesh2origin\nself.first_idx = 0", ["R-COHERENCE", "MeshHillClimbingSupportFunction"]),
    M(["C10", "C11"], "mirror-one-sided-index", LBX, "_case_0", "inv = 1.0 / direction_in_box[i1]", "inv = 1.0 / direction_in_box[i0]", ["R-MIRROR", "_case_0"]),
    M(["C10", "C11"], "mirror-one-sided-sign", LBX, "_case_0", "inv = 1.0 / direction_in_box[i0]", "inv = -1.0 / direction_in_box[i0]", ["R-MIRROR", "_case_0"]),
    M(["C15"], "planecross-de-morgan", TI, "check_tetrahedra_intersect_contact_plane",
      "min(plane_distances1) < -tolerance and max(plane_distances1) > tolerance and (min(plane_distances2) < -tolerance) and (max(plane_distances2) > tolerance)",
      "not (min(plane_distances1) >= -tolerance or max(plane_distances1) <= tolerance or (min(plane_distances2) >= -tolerance and max(plane_distances2) <= tolerance))", ["R-PLANECROSS"]),
    M(["C15"], "planecross-one-sided", TI, "check_tetrahedra_intersect_contact_plane", "max(plane_distances2) > tolerance", "max(plane_distances1) > tolerance", ["R-PLANECROSS"]),
    M(["C15"], "planecross-wrong-sign", TI, "check_tetrahedra_intersect_contact_plane", "min(plane_distances1) < -tolerance", "min(plane_distances1) < tolerance", ["R-PLANECROSS"]),
    M(["C16"], "sharedpose-asarray", RB, "RigidBody.express_in", "np.copy(new_body2origin)", "np.asarray(new_body2origin, dtype=float)", ["R-SHAREDPOSE", "express_in"]),
    M(["C16"], "sharedpose-plain", RB, "RigidBody.express_in", "np.copy(new_body2origin)", "new_body2origin", ["R-SHAREDPOSE", "express_in"]),
    M(["C19"], "mpr-direction-divided-by-depth", MP, "_find_penetration_info", "return (depth, norm_vector(pdir), pos)", "return (depth, pdir / depth, pos)", ["R-SAFEDIV", "_find_penetration_info"]),
    M(["C19", "C08"], "mpr-segment-direction-divided-by-depth", MP, "_find_penetration_segment", "norm_vector(penetration_direction)", "penetration_direction / depth", ["_find_penetration_segment"]),
    M(["C08"], "mpr-direction-divided-by-depth-c08", MP, "_find_penetration_info", "return (depth, norm_vector(pdir), pos)", "return (depth, pdir / depth, pos)", ["R-UNITDIR"]),
    M(["C19"], "norm-vector-no-zero-exit", "distance3d/utils.py", "norm_vector", "if norm == 0.0:\n    return v", "", ["R-SAFEDIV", "norm_vector"]),
    M(["C19"], "sphere-support-zero-side", "distance3d/geometry.py", "support_function_sphere", "s_norm == 0.0", "s_norm != 0.0", ["R-SAFEDIV", "support_function_sphere"]),
    M(["C19"], "disk-support-no-zero-exit", "distance3d/geometry.py", "support_function_disk", "if norm == 0.0:\n    return np.copy(center)", "", ["R-SAFEDIV", "support_function_disk"]),
    M(["C19"], "cone-support-no-guard", "distance3d/geometry.py", "support_function_cone", "norm == 0.0", "False", ["R-SAFEDIV", "support_function_cone"]),
]
_ALL = _SEEDLIKE + _C20b + _C10 + _C11 + _C06 + _C05 + _C07 + _C14 + _C15 + _C16 + _C19 + _C20 + _C01 + _C18 + _C09 + _C08 + _C03 + _C04 + _C12 + _C13 + _C16b

FLOORS = {"C05": 40, "C07": 14, "C14": 9, "C15": 8, "C16": 12, "C19": 14, "C20": 10, "C01": 24, "C18": 24, "C09": 24, "C08": 10, "C02": 20, "C03": 18, "C04": 12, "C12": 20, "C13": 10, "C06": 14, "C10": 12, "C11": 8}


def all_mutants():
    return list(_ALL)


def register(ms):
    _ALL.extend(ms)
