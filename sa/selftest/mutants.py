"""Registered single-point mutants, one list per rule family.  Anchors are statement/expression *text* looked up in
the ast of /repo's current source (format independent); a vanished anchor makes the mutant 'skipped', and too many
skipped mutants (below FLOORS) is an analysis error."""
from .harness import Mutant as M

AT = "distance3d/aabb_tree.py"

_C05 = [
    M(["C05"], "closed-strict-lo", AT, "aabb_overlap", "aabb1[0, 0] <= aabb2[0, 1]", "aabb1[0, 0] < aabb2[0, 1]", "R-CLOSED"),
    M(["C05"], "closed-strict-hi", AT, "aabb_overlap", "aabb1[2, 1] >= aabb2[2, 0]", "aabb1[2, 1] > aabb2[2, 0]", "R-CLOSED"),
    M(["C05"], "closed-wrong-axis", AT, "aabb_overlap", "aabb1[1, 0] <= aabb2[1, 1]", "aabb1[1, 0] <= aabb2[2, 1]", "R-CLOSED"),
    M(["C05"], "closed-wrong-col", AT, "aabb_overlap", "aabb1[1, 1] >= aabb2[1, 0]", "aabb1[1, 1] >= aabb2[1, 1]", "R-CLOSED"),
    M(["C05"], "traverse-one-child", AT, "query_overlap", "stack.extend([nodes[node_index, 1], nodes[node_index, 2]])",
      "stack.extend([nodes[node_index, 1]])", ["R-TRAVERSE", "query_overlap|push-both"]),
    M(["C05"], "traverse-same-child-twice", AT, "query_overlap", "stack.extend([nodes[node_index, 1], nodes[node_index, 2]])",
      "stack.extend([nodes[node_index, 1], nodes[node_index, 1]])", ["R-TRAVERSE", "query_overlap|push-both"]),
    M(["C05"], "traverse-break-always", AT, "query_overlap", "if break_at_first_leaf:\n    break", "break", ["R-TRAVERSE", "early-exit"]),
    M(["C05"], "traverse-extra-filter", AT, "query_overlap", "overlaps.extend([node_index])",
      "if node_index % 2 == 0:\n    overlaps.extend([node_index])", ["R-TRAVERSE", "extra-filter"]),
    M(["C05"], "traverse-append-other", AT, "query_overlap", "overlaps.extend([node_index])",
      "overlaps.extend([nodes[node_index, 0]])", ["R-TRAVERSE", "leaf-append-value"]),
    M(["C05"], "traverse-no-pop", AT, "query_overlap", "stack = stack[:-1]", "stack = stack[:]", ["R-TRAVERSE", "query_overlap|pop"]),
    M(["C05"], "tt-prune-bound", AT, "query_overlap_of_other_tree",
      "len(query_overlap(node_aabb, root1, nodes1, aabbs1, break_at_first_leaf=True)) >= 1",
      "len(query_overlap(node_aabb, root1, nodes1, aabbs1, break_at_first_leaf=True)) > 1", ["R-TRAVERSE", "prune-bound"]),
    M(["C05"], "tt-leaf-early-exit", AT, "query_overlap_of_other_tree",
      "overlaps = query_overlap(node_aabb, root1, nodes1, aabbs1)",
      "overlaps = query_overlap(node_aabb, root1, nodes1, aabbs1, break_at_first_leaf=True)", ["R-TRAVERSE", "leaf-query-complete"]),
    M(["C05"], "tt-one-child", AT, "query_overlap_of_other_tree", "stack.extend([nodes2[node_index, 1], nodes2[node_index, 2]])",
      "stack.extend([nodes2[node_index, 2]])", ["R-TRAVERSE", "other_tree|push-both"]),
    M(["C05"], "tt-wrong-tree-box", AT, "query_overlap_of_other_tree", "node_aabb = aabbs2[node_index]", "node_aabb = aabbs1[node_index]",
      ["R-TRAVERSE", "other_tree"]),
    M(["C05"], "tt-pairs-swapped", AT, "query_overlap_of_other_tree", "broad_pairs = list(zip(broad_tetrahedra1, broad_tetrahedra2))",
      "broad_pairs = list(zip(broad_tetrahedra2, broad_tetrahedra1))", ["R-TRAVERSE", "return-order"]),
    M(["C05"], "tt-seed-root1", AT, "query_overlap_of_other_tree", "stack = [root2]", "stack = [root1]", ["R-TRAVERSE", "seed"]),
    M(["C05"], "links-no-leaf-parent", AT, "insert_leaf", "nodes[leaf_node_index, PARENT_INDEX] = new_parent_index", "", ["R-LINKS", "child-store"]),
    M(["C05"], "links-no-sibling-parent", AT, "insert_leaf", "nodes[sibling_index, PARENT_INDEX] = new_parent_index", "", ["R-LINKS"]),
    M(["C05"], "links-no-inherit", AT, "insert_leaf", "nodes[new_parent_index, PARENT_INDEX] = old_parent_index", "", ["R-LINKS"]),
    M(["C05"], "links-redirect-wrong-slot", AT, "insert_leaf", "nodes[old_parent_index, RIGHT_INDEX] = new_parent_index",
      "nodes[old_parent_index, LEFT_INDEX] = new_parent_index", ["R-LINKS", "redirect"]),
    M(["C05"], "links-redirect-test-leaf", AT, "insert_leaf", "nodes[old_parent_index, LEFT_INDEX] == sibling_index",
      "nodes[old_parent_index, LEFT_INDEX] == leaf_node_index", ["R-LINKS", "redirect-slot-match"]),
    M(["C05"], "links-root-not-updated", AT, "insert_leaf", "root_node_index = new_parent_index", "root_node_index = sibling_index", ["R-LINKS", "root-update"]),
    M(["C05"], "links-same-child-twice", AT, "insert_leaf", "nodes[new_parent_index, RIGHT_INDEX] = leaf_node_index",
      "nodes[new_parent_index, RIGHT_INDEX] = sibling_index", ["R-LINKS"]),
    M(["C05"], "links-no-filled-inc", AT, "insert_leaf", "filled_len += 1", "", ["R-LINKS", "fresh-slot"]),
    M(["C05"], "links-branch-type", AT, "insert_leaf", "nodes[new_parent_index, TYPE_INDEX] = TYPE_BRANCH",
      "nodes[new_parent_index, TYPE_INDEX] = TYPE_LEAF", ["R-LINKS", "branch-type"]),
    M(["C05"], "links-descent-same-child", AT, "insert_leaf", "tree_node_index = right_node_index", "tree_node_index = left_node_index", ["R-LINKS", "descent-children"]),
    M(["C05"], "links-old-parent-late", AT, "insert_leaf", "old_parent_index = nodes[sibling_index, PARENT_INDEX]",
      "old_parent_index = nodes[leaf_node_index, PARENT_INDEX]", ["R-LINKS", "old-parent"]),
    M(["C05"], "refit-min-max-swapped", AT, "_merge_aabb", "min(aabb1[1, 0], aabb2[1, 0])", "max(aabb1[1, 0], aabb2[1, 0])", ["R-REFIT", "row1 col0"]),
    M(["C05"], "refit-wrong-col", AT, "_merge_aabb", "max(aabb1[2, 1], aabb2[2, 1])", "max(aabb1[2, 1], aabb2[2, 0])", ["R-REFIT", "row2 col1"]),
    M(["C05"], "refit-one-sided", AT, "_merge_aabb", "min(aabb1[0, 0], aabb2[0, 0])", "min(aabb1[0, 0], aabb1[0, 0])", ["R-REFIT", "row0 col0"]),
    M(["C05"], "refit-parent-box-leaf-only", AT, "insert_leaf", "_merge_aabb(aabbs[leaf_node_index], aabbs[sibling_index])",
      "_merge_aabb(aabbs[leaf_node_index], aabbs[leaf_node_index])", ["R-REFIT", "new-parent-box"]),
    M(["C05"], "refit-no-upward", AT, "insert_leaf", "aabbs = fix_upward_tree(tree_node_index, nodes, aabbs)", "", ["R-REFIT", "upward-fix-called"]),
    M(["C05"], "refit-upward-one-child", AT, "fix_upward_tree", "aabbs[tree_node[RIGHT_INDEX]]", "aabbs[tree_node[LEFT_INDEX]]", ["R-REFIT", "remerge-both"]),
    M(["C05"], "refit-upward-step", AT, "fix_upward_tree", "tree_node_index = tree_node[PARENT_INDEX]", "tree_node_index = INDEX_NONE", ["R-REFIT", "step-to-parent"]),
    M(["C05", "C20"], "sentinel-guard-removed", AT, "query_overlap", "if node_index == INDEX_NONE:\n    continue", "", ["R-SENTINEL", "query_overlap|root_node_index"]),
    M(["C05", "C20"], "sentinel-guard-removed-tt", AT, "query_overlap_of_other_tree", "if node_index == INDEX_NONE:\n    continue", "", ["R-SENTINEL", "root2"]),
    M(["C05"], "book-no-truncate-ext", AT, "AabbTree.insert_aabbs", "self.external_data_list = self.external_data_list[:self.filled_len]", "", ["R-BOOKKEEP", "truncate external_data_list"]),
    M(["C05"], "book-no-truncate-aabbs", AT, "AabbTree.insert_aabbs", "self.aabbs = self.aabbs[:self.filled_len]", "", ["R-BOOKKEEP", "truncate aabbs"]),
    M(["C05"], "book-pad-wrong-len", AT, "AabbTree.insert_aabbs", "[None] * (len(self.nodes) - len(self.external_data_list))",
      "[None] * (len(self.nodes) - len(self.insert_index_list))", ["R-BOOKKEEP", "external_data_list"]),
    M(["C05"], "book-result-order", AT, "AabbTree.insert_aabbs",
      "self.root, self.nodes, self.aabbs, self.filled_len = insert_aabbs(self.root, self.nodes, self.aabbs, self.filled_len, insert_order)",
      "self.root, self.aabbs, self.nodes, self.filled_len = insert_aabbs(self.root, self.nodes, self.aabbs, self.filled_len, insert_order)",
      ["R-BOOKKEEP", "result-order"]),
    M(["C05"], "book-capacity", AT, "AabbTree.insert_aabbs", "2 * (self.filled_len - len(self.nodes))", "1 * (self.filled_len - len(self.nodes))", ["R-BOOKKEEP", "capacity"]),
    M(["C05"], "index-batch-local-sort", AT, "AabbTree.insert_aabbs", "old_filled_len + _sort_aabbs(self.aabbs[old_filled_len:self.filled_len])",
      "_sort_aabbs(self.aabbs[old_filled_len:self.filled_len])", ["R-INDEXSPACE"]),
    M(["C05"], "index-range-from-zero", AT, "AabbTree.insert_aabbs", "np.array(range(old_filled_len, self.filled_len))",
      "np.array(range(aabb_len))", ["R-INDEXSPACE"]),
    M(["C05"], "thread-state-leaf-index", AT, "insert_aabbs", "insert_leaf(root, i, nodes, aabbs, filled_len)", "insert_leaf(root, filled_len, nodes, aabbs, i)", ["R-BOOKKEEP", "thread-state"]),
    M(["C05"], "unique-dropped", AT, "AabbTree.overlaps_aabb_tree", "np.unique(overlap_tetrahedron1)", "overlap_tetrahedron1", ["R-UNIQUE"]),
    M(["C05"], "roles-swapped-trees", AT, "AabbTree.overlaps_aabb_tree",
      "query_overlap_of_other_tree(self.root, self.nodes, self.aabbs, other.root, other.nodes, other.aabbs)",
      "query_overlap_of_other_tree(self.root, self.nodes, self.aabbs, other.root, other.nodes, self.aabbs)", ["R-UNIQUE", "roles"]),
]

_ALL = _C05

FLOORS = {"C05": 40}


def all_mutants():
    return list(_ALL)


def register(ms):
    _ALL.extend(ms)
