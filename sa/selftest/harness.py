"""Thorough tier = the property's rules (thorough scope) + validation of the rules themselves:

* FIRES: every registered mutant (an ast-computed single-point edit of /repo's *current* source, held in memory as an
  overlay — nothing is written to /repo or /verif, no scratch tree is left behind) must produce a violation whose key
  contains the expected rule/instance text.
* SILENT: behaviour-preserving rewrites of the whole package (ast.unparse round trip, flipped comparisons,
  np.dot(a,b) <-> a.dot(b), reordered module-level functions) must leave the verdict unchanged.

A mutant that is not killed, or a rewrite that changes the verdict, is an analysis defect: ANALYSIS-ERROR, exit 2.
"""
import ast
import re
import copy
import multiprocessing
import os
import time

from ..core.index import Index, AnalysisError, PKG


class Mutant:
    def __init__(self, props, name, relpath, func, find, replace, expect, nth=0, count=None):
        self.props = props if isinstance(props, (list, tuple)) else [props]
        self.name = name
        self.relpath = relpath
        self.func = func          # qualname ('Class.meth' / 'f') or None for module scope
        self.find = find          # source text of the node to replace (statement or expression)
        self.replace = replace    # source text of the replacement ('' = delete statement)
        self.expect = expect      # substring(s) that must occur in a new violation key
        self.nth = nth            # which occurrence (0-based) when the text occurs several times
        self.count = count        # expected number of occurrences (None = at least nth+1)

    def __repr__(self):
        return "<Mutant %s %s::%s>" % (self.name, self.relpath, self.func)


def _norm(txt, mode):
    try:
        if mode == "expr":
            return ast.unparse(ast.parse(txt.strip(), mode="eval").body)
        return ast.unparse(ast.parse(_dedent(txt)).body)
    except SyntaxError:
        return None


def _dedent(txt):
    import textwrap
    return textwrap.dedent(txt).strip("\n")


def _find_scope(tree, qual):
    if qual is None:
        return tree
    cur = tree
    for part in qual.split("."):
        nxt = None
        for st in ast.walk(cur):
            if isinstance(st, (ast.FunctionDef, ast.ClassDef, ast.AsyncFunctionDef)) and st.name == part and st is not cur:
                nxt = st
                break
        if nxt is None:
            return None
        cur = nxt
    return cur


class _Replacer(ast.NodeTransformer):
    def __init__(self, target, new_nodes):
        self.target = target
        self.new_nodes = new_nodes

    def generic_visit(self, node):
        for field, old in ast.iter_fields(node):
            if isinstance(old, list):
                new = []
                for v in old:
                    if v is self.target:
                        new.extend(self.new_nodes)
                    elif isinstance(v, ast.AST):
                        new.append(self.visit(v))
                    else:
                        new.append(v)
                if field in ("body",) and not new and isinstance(node, (ast.If, ast.For, ast.While, ast.FunctionDef, ast.With)):
                    new = [ast.Pass()]
                old[:] = new
            elif isinstance(old, ast.AST):
                if old is self.target:
                    setattr(node, field, self.new_nodes[0])
                else:
                    setattr(node, field, self.visit(old))
        return node

    def visit(self, node):
        return self.generic_visit(node)


def apply_mutant(source, m):
    """-> (new source, None) or (None, reason)."""
    tree = ast.parse(source)
    scope = _find_scope(tree, m.func)
    if scope is None:
        return None, "scope %s not found" % m.func
    if m.find == "<FUNCTION>":
        # whole-function replacement (the replacement may bring helper definitions with it)
        new_nodes = ast.parse(_dedent(m.replace)).body
        for n in _walk_ordered(tree):
            blk = getattr(n, "body", None)
            if isinstance(blk, list) and scope in blk:
                i = blk.index(scope)
                for nn in new_nodes:
                    if isinstance(nn, ast.FunctionDef) and not nn.decorator_list and nn.name == scope.name:
                        nn.decorator_list = scope.decorator_list
                blk[i:i + 1] = new_nodes
                ast.fix_missing_locations(tree)
                new = ast.unparse(tree)
                try:
                    compile(new, m.relpath, "exec")
                except SyntaxError as e:
                    return None, "variant does not compile: %s" % e
                return new, None
        return None, "scope %s has no parent block" % m.func
    ftxt_e = _norm(m.find, "expr")
    ftxt_s = _norm(m.find, "stmt")
    try:
        fstmts = [ast.unparse(x) for x in ast.parse(_dedent(m.find)).body]
    except SyntaxError:
        fstmts = []
    if len(fstmts) > 1:
        # multi-statement anchor: consecutive statements of one block
        blocks = []
        for n in _walk_ordered(scope):
            for fld in ("body", "orelse", "finalbody"):
                blk = getattr(n, fld, None)
                if isinstance(blk, list) and blk and isinstance(blk[0], ast.stmt):
                    for i in range(len(blk) - len(fstmts) + 1):
                        if [ast.unparse(x) for x in blk[i:i + len(fstmts)]] == fstmts:
                            blocks.append((blk, i))
        if len(blocks) <= m.nth:
            return None, "multi-statement anchor `%s` not found (%d hits)" % (m.find.strip()[:60], len(blocks))
        blk, i = blocks[m.nth]
        new_nodes = ast.parse(_dedent(m.replace)).body if m.replace.strip() else []
        blk[i:i + len(fstmts)] = new_nodes if (new_nodes or len(blk) > len(fstmts)) else [ast.Pass()]
        ast.fix_missing_locations(tree)
        new = ast.unparse(tree)
        try:
            compile(new, m.relpath, "exec")
        except SyntaxError as e:
            return None, "mutant does not compile: %s" % e
        return new, None
    hits = []
    for n in _walk_ordered(scope):
        if isinstance(n, ast.stmt) and ftxt_s is not None and ast.unparse(n) == ftxt_s:
            hits.append(("stmt", n))
        elif isinstance(n, ast.expr) and ftxt_e is not None and ast.unparse(n) == ftxt_e:
            if hits and hits[-1][0] == "stmt" and isinstance(hits[-1][1], ast.Expr) and hits[-1][1].value is n:
                continue
            hits.append(("expr", n))
    if m.count is not None and len(hits) != m.count:
        return None, "anchor text occurs %d times, expected %d" % (len(hits), m.count)
    if len(hits) <= m.nth:
        return None, "anchor text `%s` not found (%d hits)" % (m.find.strip()[:60], len(hits))
    kind, target = hits[m.nth]
    if kind == "stmt":
        new_nodes = ast.parse(_dedent(m.replace)).body if m.replace.strip() else []
    else:
        new_nodes = [ast.parse(m.replace.strip(), mode="eval").body]
    _Replacer(target, new_nodes).visit(tree)
    ast.fix_missing_locations(tree)
    new = ast.unparse(tree)
    try:
        compile(new, m.relpath, "exec")
    except SyntaxError as e:
        return None, "mutant does not compile: %s" % e
    return new, None


def _walk_ordered(node):
    yield node
    for ch in ast.iter_child_nodes(node):
        yield from _walk_ordered(ch)


# ---------------------------------------------------------------------------------------------- rewrites
class _FlipCompare(ast.NodeTransformer):
    FL = {ast.Lt: ast.Gt, ast.Gt: ast.Lt, ast.LtE: ast.GtE, ast.GtE: ast.LtE}

    def visit_Compare(self, node):
        self.generic_visit(node)
        if len(node.ops) == 1 and type(node.ops[0]) in self.FL:
            return ast.Compare(left=node.comparators[0], ops=[self.FL[type(node.ops[0])]()], comparators=[node.left])
        return node


class _DotStyle(ast.NodeTransformer):
    """np.dot(a, b) -> a.dot(b) when a is a plain name (keeps numba-compatible code shape)."""

    def visit_Call(self, node):
        self.generic_visit(node)
        if isinstance(node.func, ast.Attribute) and isinstance(node.func.value, ast.Name) and node.func.value.id == "np" \
                and node.func.attr == "dot" and len(node.args) == 2 and not node.keywords and isinstance(node.args[0], ast.Name):
            return ast.Call(func=ast.Attribute(value=node.args[0], attr="dot", ctx=ast.Load()), args=[node.args[1]], keywords=[])
        return node


def _reorder_functions(tree):
    """Move every module-level function definition below the last import/constant block, reversed."""
    funcs = [s for s in tree.body if isinstance(s, ast.FunctionDef)]
    rest = [s for s in tree.body if not isinstance(s, ast.FunctionDef)]
    # keep statements that must precede (imports, constants, classes) first, then functions reversed
    tree.body = rest + list(reversed(funcs))
    return tree


class _RenameLocals(ast.NodeTransformer):
    """alpha-rename: every function-local name that is assigned in the function (not a parameter, not global, not used
    as keyword) gets a suffix."""

    def visit_FunctionDef(self, node):
        self.generic_visit(node)
        params = {a.arg for a in node.args.args + node.args.kwonlyargs + node.args.posonlyargs}
        if node.args.vararg:
            params.add(node.args.vararg.arg)
        if node.args.kwarg:
            params.add(node.args.kwarg.arg)
        inner = set()
        for n in ast.walk(node):
            if n is not node and isinstance(n, (ast.FunctionDef, ast.Lambda, ast.ClassDef, ast.ListComp, ast.GeneratorExp, ast.SetComp, ast.DictComp)):
                inner.add(n)
        if inner:
            return node  # keep closures untouched
        declared = set()
        for n in ast.walk(node):
            if isinstance(n, (ast.Global, ast.Nonlocal)):
                declared.update(n.names)
        stored = {n.id for n in ast.walk(node) if isinstance(n, ast.Name) and isinstance(n.ctx, ast.Store)}
        # names that carry the repository's naming conventions are part of what the rules read (frames: x2y / *_in_x,
        # roles: *12 / *21 / *1 / *2): renaming them is not a neutral edit for a name-typed code base
        conv = re.compile(r"(_in_|[A-Za-z0-9]2[A-Za-z]|\d$|12|21|squared|_sq)")
        ren = {s for s in stored if s not in params and s not in declared and not s.startswith("__") and not conv.search(s)}
        for n in ast.walk(node):
            if isinstance(n, ast.Name) and n.id in ren:
                n.id = n.id + "_rn"
        return node


class _SwapIfElse(ast.NodeTransformer):
    """if c: A else: B  ->  if not c: B else: A   (plain two-armed ifs only; elif chains keep their shape)."""

    def visit_If(self, node):
        self.generic_visit(node)
        if node.orelse and not (len(node.orelse) == 1 and isinstance(node.orelse[0], ast.If)) \
                and not (len(node.body) == 1 and isinstance(node.body[0], ast.If) and node.body[0].orelse):
            return ast.If(test=ast.UnaryOp(op=ast.Not(), operand=node.test), body=node.orelse, orelse=node.body)
        return node


def _pure(e):
    for n in ast.walk(e):
        if isinstance(n, ast.Call):
            f = n.func
            if not (isinstance(f, ast.Attribute) and isinstance(f.value, ast.Name) and f.value.id in ("np", "math")):
                return False
        if isinstance(n, (ast.Yield, ast.Await, ast.NamedExpr, ast.Starred, ast.Lambda, ast.ListComp, ast.GeneratorExp)):
            return False
    return True


class _InlineTemps(ast.NodeTransformer):
    """x = <pure expr>; <next statement uses x exactly once and nothing else in the function mentions x>  ->  inline.
    Only scalar-looking arithmetic is inlined (no subscripts / attribute stores involved), so no aliasing changes."""

    def visit_FunctionDef(self, node):
        self.generic_visit(node)
        counts = {}
        for n in ast.walk(node):
            if isinstance(n, ast.Name):
                counts.setdefault(n.id, [0, 0])[0 if isinstance(n.ctx, ast.Store) else 1] += 1
        self._blocks(node, counts)
        return node

    def _blocks(self, node, counts):
        for field in ("body", "orelse", "finalbody"):
            blk = getattr(node, field, None)
            if not isinstance(blk, list):
                continue
            i = 0
            while i + 1 < len(blk):
                st, nx = blk[i], blk[i + 1]
                if isinstance(st, ast.Assign) and len(st.targets) == 1 and isinstance(st.targets[0], ast.Name) \
                        and counts.get(st.targets[0].id) == [1, 1] and _pure(st.value) \
                        and isinstance(nx, (ast.Assign, ast.Return, ast.AugAssign)) \
                        and not isinstance(st.value, (ast.Name, ast.Constant, ast.Subscript, ast.Attribute, ast.Tuple, ast.List)):
                    name = st.targets[0].id
                    uses = [n for n in ast.walk(nx) if isinstance(n, ast.Name) and n.id == name and isinstance(n.ctx, ast.Load)]
                    if len(uses) == 1:
                        val = st.value

                        class R(ast.NodeTransformer):
                            def visit_Name(self, n):
                                return val if (n.id == name and isinstance(n.ctx, ast.Load)) else n
                        blk[i + 1] = R().visit(nx)
                        del blk[i]
                        continue
                i += 1
            for st in blk:
                if not isinstance(st, (ast.FunctionDef, ast.ClassDef)):
                    self._blocks(st, counts)


class _ExtractTemps(ast.NodeTransformer):
    """return <expr> -> tmp = <expr>; return tmp   and   x = f(<binop>) -> tmp = <binop>; x = f(tmp)  for the FIRST positional argument of a
    call on the right-hand side of a plain assignment (evaluation order is unchanged: the first argument is evaluated first anyway)."""

    def __init__(self):
        self.k = 0

    def visit_FunctionDef(self, node):
        self.generic_visit(node)
        if any(isinstance(n, (ast.Lambda, ast.ListComp, ast.GeneratorExp, ast.DictComp, ast.SetComp)) or (isinstance(n, ast.FunctionDef) and n is not node) for n in ast.walk(node)):
            return node
        self._blocks(node)
        return node

    def _blocks(self, node):
        for field in ("body", "orelse", "finalbody"):
            blk = getattr(node, field, None)
            if not isinstance(blk, list) or not blk or not isinstance(blk[0], ast.stmt):
                continue
            out = []
            for st in blk:
                if isinstance(st, ast.Return) and st.value is not None and isinstance(st.value, (ast.BinOp, ast.Call)) and _pure(st.value):
                    self.k += 1
                    name = "tmp_ret_%d" % self.k
                    out.append(ast.Assign(targets=[ast.Name(id=name, ctx=ast.Store())], value=st.value))
                    out.append(ast.Return(value=ast.Name(id=name, ctx=ast.Load())))
                    continue
                if isinstance(st, ast.Assign) and len(st.targets) == 1 and isinstance(st.targets[0], ast.Name) and isinstance(st.value, ast.Call) \
                        and st.value.args and isinstance(st.value.args[0], ast.BinOp) and _pure(st.value.args[0]) and isinstance(st.value.func, (ast.Name, ast.Attribute)) \
                        and not (isinstance(st.value.func, ast.Attribute) and not isinstance(st.value.func.value, ast.Name)):
                    self.k += 1
                    name = "tmp_arg_%d" % self.k
                    out.append(ast.Assign(targets=[ast.Name(id=name, ctx=ast.Store())], value=st.value.args[0]))
                    st.value.args[0] = ast.Name(id=name, ctx=ast.Load())
                    out.append(st)
                    continue
                if not isinstance(st, (ast.FunctionDef, ast.ClassDef)):
                    self._blocks(st)
                out.append(st)
            blk[:] = out


class _GuardClauses(ast.NodeTransformer):
    """inside loops: a trailing `if c: A` (no else) becomes `if not c: continue` followed by A"""

    def _loop(self, node):
        self.generic_visit(node)
        if node.body and isinstance(node.body[-1], ast.If) and not node.body[-1].orelse and not node.orelse:
            last = node.body[-1]
            node.body[-1:] = [ast.If(test=ast.UnaryOp(op=ast.Not(), operand=last.test), body=[ast.Continue()], orelse=[])] + last.body
        return node

    visit_For = _loop
    visit_While = _loop


REWRITES = {
    "unparse-roundtrip": lambda t: t,
    "flip-comparisons": lambda t: _FlipCompare().visit(t),
    "dot-style": lambda t: _DotStyle().visit(t),
    "reorder-functions": _reorder_functions,
    "rename-locals": lambda t: _RenameLocals().visit(t),
    "swap-if-else": lambda t: _SwapIfElse().visit(t),
    "inline-temps": lambda t: _InlineTemps().visit(t),
    "extract-temps": lambda t: _ExtractTemps().visit(t),
    "guard-clauses": lambda t: _GuardClauses().visit(t),
}


def build_rewrite_overlay(root, name):
    ov = {}
    pkgdir = os.path.join(root, PKG)
    for dp, dns, fns in os.walk(pkgdir):
        dns[:] = [d for d in dns if d != "__pycache__" and d != "test"]
        for fn in fns:
            if fn.endswith(".py"):
                path = os.path.join(dp, fn)
                rel = os.path.relpath(path, root)
                with open(path, encoding="utf-8") as f:
                    src = f.read()
                tree = ast.parse(src)
                tree = REWRITES[name](tree)
                ast.fix_missing_locations(tree)
                ov[rel] = ast.unparse(tree)
    return ov


# ---------------------------------------------------------------------------------------------- running
def _bad_keys(rep):
    return {i["key"] for i in rep.instances if i["verdict"] == "BAD"}


def _run_mutant(args):
    prop, root, m = args
    from ..check import analyse
    path = os.path.join(root, m.relpath)
    try:
        with open(path, encoding="utf-8") as f:
            src = f.read()
    except OSError:
        return (m.name, "skipped", "file %s missing" % m.relpath, [])
    new, why = apply_mutant(src, m)
    if new is None:
        return (m.name, "skipped", why, [])
    rep = analyse(prop, "quick", root, overlay={m.relpath: new})
    return (m.name, "ran", rep.errors, sorted(_bad_keys(rep)))


def _run_rewrite(args):
    prop, root, name = args
    from ..check import analyse
    ov = build_rewrite_overlay(root, name)
    rep = analyse(prop, "quick", root, overlay=ov)
    return (name, rep.errors, sorted(_bad_keys(rep)), len(rep.instances))


def run_thorough(prop, root, seed=0, write=True):
    from ..check import analyse
    from . import mutants as mutmod
    t0 = time.time()
    rep = analyse(prop, "thorough", root)
    rep.seed = seed
    base_bad = _bad_keys(rep)
    base_quick = analyse(prop, "quick", root)
    quick_bad = _bad_keys(base_quick)
    from ..core.report import load_known
    known = {k["key"] for k in load_known().get("findings", []) if k.get("property") == prop}
    unlisted = base_bad - known
    muts = [m for m in mutmod.all_mutants() if prop in m.props]
    results = {"mutants_total": len(muts), "killed": 0, "skipped": [], "not_killed": [], "mutant_errors": [],
               "rewrites": {}, "selftest_run": False}
    if rep.errors or unlisted:
        rep.note("self-test skipped: the base analysis already reports violations/errors")
    else:
        results["selftest_run"] = True
        jobs = [(prop, root, m) for m in muts]
        rjobs = [(prop, root, n) for n in REWRITES]
        nproc = min(16, max(1, len(jobs) + len(rjobs)))
        with multiprocessing.Pool(nproc) as pool:
            mres = pool.map_async(_run_mutant, jobs)
            rres = pool.map_async(_run_rewrite, rjobs)
            mres = mres.get()
            rres = rres.get()
        byname = {m.name: m for m in muts}
        killed_samples = []
        for name, state, errs, bad in mres:
            m = byname[name]
            if state == "skipped":
                results["skipped"].append("%s: %s" % (name, errs))
                continue
            new = [k for k in bad if k not in quick_bad]
            exp = m.expect if isinstance(m.expect, (list, tuple)) else [m.expect]
            if exp == ["SILENT"]:
                # a property-preserving variant (a correct optimisation, an equivalent formulation): any report is a false alarm
                if new or errs:
                    rep.error("benign variant %s is reported: %s" % (name, (new[:3] or errs[:1])))
                    results.setdefault("benign_reported", []).append(name)
                else:
                    results["benign_silent"] = results.get("benign_silent", 0) + 1
                    results["killed"] += 1
                continue
            hit = [k for k in new if all(e in k for e in exp)]
            if hit:
                results["killed"] += 1
                if len(killed_samples) < 8:
                    killed_samples.append({"mutant": name, "edit": "%s -> %s" % (m.find.strip()[:70], m.replace.strip()[:70]),
                                           "reported": hit[0]})
            elif errs:
                results["mutant_errors"].append("%s: analysis error instead of a violation: %s" % (name, errs[0][:200]))
            else:
                results["not_killed"].append("%s (expected key containing %s; new violations: %s)" % (name, exp, new[:3]))
        for name, errs, bad, n in rres:
            same = set(bad) == quick_bad and not errs
            results["rewrites"][name] = "silent" if same else "CHANGED: errors=%s new=%s lost=%s" % (
                errs[:2], sorted(set(bad) - quick_bad)[:3], sorted(quick_bad - set(bad))[:3])
            if not same:
                rep.error("behaviour-preserving rewrite '%s' changed the verdict: %s" % (name, results["rewrites"][name]))
        for nk in results["not_killed"]:
            rep.error("mutant not killed: %s" % nk)
        for me in results["mutant_errors"]:
            rep.error("mutant %s" % me)
        results["killed_samples"] = killed_samples
        applied = len(muts) - len(results["skipped"])
        floor = mutmod.FLOORS.get(prop, 0)
        if applied < floor:
            rep.error("only %d of %d mutants could be applied (floor %d): anchors moved, self-test lost its grip: %s"
                      % (applied, len(muts), floor, results["skipped"][:4]))
    rep.extra["selftest"] = results
    rep.t0 = t0
    status = rep.finish(write=write)
    for sk in results["skipped"]:
        print("selftest %s: SKIPPED %s" % (prop, sk))
    print("selftest %s: mutants=%d killed=%d skipped=%d not_killed=%d; rewrites=%s" % (
        prop, results["mutants_total"], results["killed"], len(results["skipped"]), len(results["not_killed"]),
        results["rewrites"]))
    return status
