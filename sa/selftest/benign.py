"""Property-preserving variants: realistic refactorings (the round-5 seeded diffs with their one behavioural difference repaired)
that a developer could commit.  Every check must stay silent on them — a report would be a false alarm."""
from .harness import Mutant as M

JO = "distance3d/gjk/_gjk_jolt.py"
AT = "distance3d/aabb_tree.py"
OR = "distance3d/gjk/_gjk_original.py"
EP = "distance3d/epa.py"
GE = "distance3d/geometry.py"

VARIANTS = [
    # C01-r5 repaired: the three bit shuffles extracted into a helper, with the right vertex indices
    M(["C01", "C18", "C02", "C09"], "benign-tetrahedron-remap-helper", JO, "closest_point_tetrahedron", "<FUNCTION>", '''
def face_set_to_tetrahedron_set(face_set, i0, i1, i2):
    return (((face_set & 0b0001) << i0) + (((face_set & 0b0010) >> 1) << i1) + (((face_set & 0b0100) >> 2) << i2))


def closest_point_tetrahedron(a, b, c, d):
    closest_set = 0b1111
    closest_point = np.zeros(3)
    best_dist_sq = MAX_FLOAT
    origin_out_of_planes = origin_outside_of_tetrahedron_planes(a, b, c, d)
    if origin_out_of_planes[0]:
        closest_point, closest_set = closest_point_triangle(a, b, c)
        best_dist_sq = np.dot(closest_point, closest_point)
    if origin_out_of_planes[1]:
        q, new_set = closest_point_triangle(a, c, d)
        dist_sq = np.dot(q, q)
        if dist_sq < best_dist_sq:
            best_dist_sq = dist_sq
            closest_point = q
            closest_set = face_set_to_tetrahedron_set(new_set, 0, 2, 3)
    if origin_out_of_planes[2]:
        q, new_set = closest_point_triangle(a, d, b)
        dist_sq = np.dot(q, q)
        if dist_sq < best_dist_sq:
            best_dist_sq = dist_sq
            closest_point = q
            closest_set = face_set_to_tetrahedron_set(new_set, 0, 3, 1)
    if origin_out_of_planes[3]:
        q, new_set = closest_point_triangle(b, d, c)
        dist_sq = np.dot(q, q)
        if dist_sq < best_dist_sq:
            closest_point = q
            closest_set = face_set_to_tetrahedron_set(new_set, 1, 3, 2)
    return closest_point, closest_set
''', ["SILENT"]),
    # C20-r5 repaired: guard clauses, stack.pop(), named link columns; the box is read after the sentinel test
    M(["C05", "C06", "C20", "C04", "C19"], "benign-query-overlap-guard-clauses", AT, "query_overlap", "<FUNCTION>", '''
def query_overlap(test_aabb, root_node_index, nodes, aabbs, break_at_first_leaf=False):
    overlaps = []
    stack = [root_node_index]
    while len(stack) != 0:
        node_index = stack.pop()
        if node_index == INDEX_NONE:
            continue
        node_aabb = aabbs[node_index]
        if not aabb_overlap(node_aabb, test_aabb):
            continue
        if nodes[node_index, TYPE_INDEX] != TYPE_LEAF:
            stack.extend([nodes[node_index, LEFT_INDEX], nodes[node_index, RIGHT_INDEX]])
            continue
        overlaps.append(node_index)
        if break_at_first_leaf:
            break
    return np.array(overlaps)
''', ["SILENT"]),
    # C09-r5 repaired: the vertex candidates of the backup procedure go through one helper that sets everything from_vertex sets
    M(["C09", "C18"], "benign-backup-closer-vertex-helper", OR, "_backup_procedure_line_segment", "<FUNCTION>", '''
def _closer_vertex(simplex, solution, vertex):
    distance_squared = simplex.dot_product_table[vertex, vertex]
    if distance_squared < solution.distance_squared:
        solution.barycentric_coordinates[0] = 1.0
        solution.search_direction = simplex.points[vertex]
        solution.distance_squared = distance_squared
        return True
    return False


def _backup_procedure_line_segment(simplex, backup, d, solution):
    if backup:
        d.backup_line_segments(simplex)
    ordered_indices = np.empty(2, dtype=int)
    solution.from_vertex(simplex, 0)
    n_simplex_points = 1
    ordered_indices[0] = 0
    if d.line_segment_01_of_line_segment_optimal():
        solution_d = Solution()
        solution_d.from_line_segment(simplex, [0, 1], d.d[0, 2], d.d[1, 2])
        if solution_d.distance_squared < solution.distance_squared:
            n_simplex_points = 2
            solution.copy_from(solution_d, n_simplex_points)
            ordered_indices[:2] = 0, 1
    if _closer_vertex(simplex, solution, 1):
        n_simplex_points = 1
        ordered_indices[0] = 1
    return ordered_indices[:n_simplex_points]
''', ["SILENT"]),
    # C07-r5 repaired: the search for the reversed edge is a helper, called in the iteration that uses its result
    M(["C07", "C19", "C20"], "benign-loose-edges-find-helper", EP, "LooseEdges.add_removed_triangles_edges_to_list", "<FUNCTION>", '''
def add_removed_triangles_edges_to_list(self, faces, i):
    for j in range(EDGES_PER_FACE):
        current_edge = faces.get_edge(i, j)
        k = self.find_reversed_edge(current_edge)
        if k >= 0:
            self.overwrite_edge_with_last_edge(k)
        elif not self.add_edge_to_list(current_edge):
            break


def find_reversed_edge(self, current_edge):
    for k in range(self.n_loose_edges):
        if self.edge_already_in_list(k, current_edge):
            return k
    return -1
''', ["SILENT"]),
    # C03-r5 repaired: early returns in the cone support; the axis-parallel shortcut looks at the sign of the axial component
    M(["C03", "C12", "C19", "C02", "C01"], "benign-cone-support-early-returns", GE, "support_function_cone", "<FUNCTION>", '''
def support_function_cone(search_direction, cone2origin, radius, height):
    local_dir = np.dot(cone2origin[:3, :3].T, search_direction)
    apex = np.array([0.0, 0.0, height])
    disk_point = np.array([local_dir[0], local_dir[1], 0.0])
    norm = np.linalg.norm(disk_point)
    if norm == 0.0:
        if local_dir[2] <= 0.0:
            return transform_point(cone2origin, np.zeros(3))
        return transform_point(cone2origin, apex)
    disk_point *= radius / norm
    if np.dot(local_dir, disk_point) >= local_dir[2] * height:
        return transform_point(cone2origin, disk_point)
    return transform_point(cone2origin, apex)
''', ["SILENT"]),
    # C18-r5 repaired: projections computed up front, vertex regions tested first, all of Ericson's conjuncts kept
    M(["C18", "C01", "C02", "C09"], "benign-triangle-regions-reordered", JO, "closest_point_triangle", "<FUNCTION>", '''
def closest_point_triangle(a, b, c):
    ab = b - a
    ac = c - a
    bc = c - b
    bc_shorter_than_ac = bc.dot(bc) < ac.dot(ac)
    if bc_shorter_than_ac:
        n = np.cross(ab, bc)
    else:
        n = np.cross(ab, ac)
    n_len_sq = np.dot(n, n)
    if n_len_sq < EPSILON_SQR:
        closest_point, closest_set = closest_point_line(a, b)
        best_dist_sq = np.dot(closest_point, closest_point)
        q, new_set = closest_point_line(a, c)
        dist_sq = np.dot(q, q)
        if dist_sq < best_dist_sq:
            closest_point = q
            best_dist_sq = dist_sq
            closest_set = (new_set & 1) + ((new_set & 2) << 1)
        q, new_set = closest_point_line(b, c)
        dist_sq = np.dot(q, q)
        if dist_sq < best_dist_sq:
            closest_point = q
            closest_set = new_set << 1
        return (closest_point, closest_set)
    d1 = -ab.dot(a)
    d2 = -ac.dot(a)
    d3 = -ab.dot(b)
    d4 = -ac.dot(b)
    d5 = -ab.dot(c)
    d6 = -ac.dot(c)
    if d1 <= 0.0 and d2 <= 0.0:
        return (a, 1)
    if d3 >= 0.0 and d4 <= d3:
        return (b, 2)
    if d6 >= 0.0 and d5 <= d6:
        return (c, 4)
    vc = d1 * d4 - d3 * d2
    if vc <= 0.0 <= d1 and d3 <= 0.0:
        v = d1 / (d1 - d3)
        return (a + v * ab, 3)
    vb = d5 * d2 - d1 * d6
    if vb <= 0.0 <= d2 and d6 <= 0.0:
        w = d2 / (d2 - d6)
        return (a + w * ac, 5)
    va = d3 * d6 - d5 * d4
    d4_d3 = d4 - d3
    d5_d6 = d5 - d6
    if va <= 0.0 <= d4_d3 and d5_d6 >= 0.0:
        w = d4_d3 / (d4_d3 + d5_d6)
        return (b + w * bc, 6)
    return (n * (a + b + c).dot(n) / (3.0 * n_len_sq), 7)
''', ["SILENT"]),
    # C19-r5 repaired: the iteration counter as a flag loop that ends on every terminal state
    M(["C19", "C01"], "benign-jolt-iterations-flag-loop", JO, "gjk_distance_jolt_iterations", "<FUNCTION>", '''
def gjk_distance_jolt_iterations(collider1, collider2, tolerance=1e-10, max_distance_squared=100000.0):
    Y = np.empty((4, 3))
    P = np.empty((4, 3))
    Q = np.empty((4, 3))
    n_points = 0
    tolerance_sq = tolerance * tolerance
    search_direction = np.array([1.0, 0.0, 0.0])
    v_len_sq = np.dot(search_direction, search_direction)
    prev_v_len_sq = MAX_FLOAT
    iterations = 0
    converged = False
    while not converged:
        iterations += 1
        p = collider1.support_function(search_direction)
        q = collider2.support_function(-search_direction)
        state, n_points, prev_v_len_sq, v_len_sq = _distance_loop(p, q, Y, P, Q, n_points, tolerance_sq, prev_v_len_sq, v_len_sq, search_direction, max_distance_squared)
        converged = state != GjkState.Unknown
    return iterations
''', ["SILENT"]),
    # C10-r5 repaired: the centre-relative line point gets its own name and every callee receives it
    M(["C10", "C11", "C12"], "benign-circle-line-point-local", "distance3d/distance/_circle.py", "line_to_circle", "<FUNCTION>", '''
def line_to_circle(line_point, line_direction, center, radius, normal):
    line_point_local = line_point - center
    line_direction_cross_normal = np.cross(line_direction, normal)
    line_point_cross_normal = np.cross(line_point_local, normal)
    m0_squared = np.dot(line_direction_cross_normal, line_direction_cross_normal)
    if m0_squared > 0.0:
        closest_point_line, closest_point_circle = _case_line_and_normal_not_parallel(line_point_local, line_direction, center, radius, normal, m0_squared, line_direction_cross_normal, line_point_cross_normal)
    else:
        closest_point_line, closest_point_circle = _case_line_and_normal_parallel(line_point_local, line_direction, center, radius, normal, line_point_cross_normal)
    dist = np.linalg.norm(closest_point_line - closest_point_circle)
    return (dist, closest_point_line, closest_point_circle)
''', ["SILENT"]),
    # C16-r5 repaired: pressures (stiffness * potential) are formed by the caller and the moduli are no longer passed on
    M(["C16", "C15"], "benign-pressures-formed-by-the-caller", "distance3d/hydroelastic_contact/_interface.py", "find_contact_surface", "<FUNCTION>", '''
def find_contact_surface(rigid_body1, rigid_body2, use_aabb_trees=False):
    rigid_body1.express_in(rigid_body2.body2origin_)
    if use_aabb_trees:
        _, broad_tetrahedra1, broad_tetrahedra2, broad_pairs = rigid_body1.aabb_tree.overlaps_aabb_tree(rigid_body2.aabb_tree)
    else:
        broad_tetrahedra1, broad_tetrahedra2, broad_pairs = all_aabbs_overlap(rigid_body1.aabbs, rigid_body2.aabbs)
    X1 = barycentric_transforms(rigid_body1.tetrahedra_points[broad_tetrahedra1])
    X2 = barycentric_transforms(rigid_body2.tetrahedra_points[broad_tetrahedra2])
    X1 = {j: X1[i] for i, j in enumerate(broad_tetrahedra1)}
    X2 = {j: X2[i] for i, j in enumerate(broad_tetrahedra2)}
    intersection_result = intersect_tetrahedron_pairs(broad_pairs, rigid_body1.tetrahedra_points, rigid_body2.tetrahedra_points, rigid_body1.youngs_modulus * rigid_body1.tetrahedra_potentials, rigid_body2.youngs_modulus * rigid_body2.tetrahedra_potentials, X1, X2)
    contact_surface = ContactSurface(rigid_body2.body2origin_, *intersection_result)
    areas, coms, forces, triangles = contact_surface_forces(contact_surface, rigid_body1)
    contact_surface.add_polygon_info(areas, coms, forces, triangles)
    return contact_surface
''', ["SILENT"]),
    M(["C16", "C15"], "pressures-and-moduli-both-passed", "distance3d/hydroelastic_contact/_interface.py", "find_contact_surface", "<FUNCTION>", '''
def find_contact_surface(rigid_body1, rigid_body2, use_aabb_trees=False):
    rigid_body1.express_in(rigid_body2.body2origin_)
    if use_aabb_trees:
        _, broad_tetrahedra1, broad_tetrahedra2, broad_pairs = rigid_body1.aabb_tree.overlaps_aabb_tree(rigid_body2.aabb_tree)
    else:
        broad_tetrahedra1, broad_tetrahedra2, broad_pairs = all_aabbs_overlap(rigid_body1.aabbs, rigid_body2.aabbs)
    X1 = barycentric_transforms(rigid_body1.tetrahedra_points[broad_tetrahedra1])
    X2 = barycentric_transforms(rigid_body2.tetrahedra_points[broad_tetrahedra2])
    X1 = {j: X1[i] for i, j in enumerate(broad_tetrahedra1)}
    X2 = {j: X2[i] for i, j in enumerate(broad_tetrahedra2)}
    intersection_result = intersect_tetrahedron_pairs(broad_pairs, rigid_body1.tetrahedra_points, rigid_body2.tetrahedra_points, rigid_body1.youngs_modulus * rigid_body1.tetrahedra_potentials, rigid_body2.youngs_modulus * rigid_body2.tetrahedra_potentials, X1, X2, rigid_body1.youngs_modulus, rigid_body2.youngs_modulus)
    contact_surface = ContactSurface(rigid_body2.body2origin_, *intersection_result)
    areas, coms, forces, triangles = contact_surface_forces(contact_surface, rigid_body1)
    contact_surface.add_polygon_info(areas, coms, forces, triangles)
    return contact_surface
''', ["R-STIFFNESS", "find_contact_surface"]),
]
