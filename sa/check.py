#!/venv/bin/python
"""Entry point:  check.py <Cxx> [--tier quick|thorough] [--root DIR] [--replay FILE] [--no-write]

exit 0  all decided clauses hold (KNOWN-FINDING lines possible)
exit 1  'VIOLATION property=<id> replay=<path>'  (an unlisted violation)
exit 2  'ANALYSIS-ERROR ...'  the analysis could not run as designed
"""
import argparse
import importlib
import json
import os
import sys
import traceback

HERE = os.path.dirname(os.path.abspath(__file__))
sys.path.insert(0, os.path.dirname(HERE))

from sa.core.index import Index, AnalysisError  # noqa: E402
from sa.core.report import Report  # noqa: E402

PROPS = ["C%02d" % i for i in range(1, 21)]


def analyse(prop, tier, root, overlay=None, seed=0):
    """Run the rules of one property and return the Report (nothing printed or written)."""
    rep = Report(prop, tier, root, seed)
    try:
        mod = importlib.import_module("sa.props.%s" % prop)
        idx = Index(root, overlay)
        mod.run(idx, rep, tier)
    except AnalysisError as e:
        rep.error(str(e))
    except Exception:
        rep.error("internal error: " + traceback.format_exc().strip().replace("\n", " | "))
    return rep


def run(prop, tier, root, write=True, seed=0, only_key=None):
    rep = Report(prop, tier, root, seed)
    try:
        mod = importlib.import_module("sa.props.%s" % prop)
        idx = Index(root)
        mod.run(idx, rep, tier)
    except AnalysisError as e:
        rep.error(str(e))
    except Exception:
        rep.error("internal error: " + traceback.format_exc().strip().replace("\n", " | "))
    if only_key is not None:
        rep.instances = [i for i in rep.instances if i["key"] == only_key]
        for r in rep.rules.values():
            r["floor"] = 0
        if not rep.instances:
            print("replay: instance %s no longer exists in the source (construct removed or repaired)" % only_key)
    return rep.finish(write=write)


def main(argv=None):
    ap = argparse.ArgumentParser()
    ap.add_argument("prop")
    ap.add_argument("--tier", default=os.environ.get("VERIF_TIER", "quick"), choices=["quick", "thorough"])
    ap.add_argument("--root", default=os.environ.get("D3D_ROOT", "/repo"))
    ap.add_argument("--replay", default=None)
    ap.add_argument("--no-write", action="store_true")
    a = ap.parse_args(argv)
    seed = int(os.environ.get("VERIF_SEED", "0") or 0)
    if a.prop not in PROPS:
        print("ANALYSIS-ERROR unknown property %s" % a.prop)
        return 2
    only = None
    if a.replay:
        with open(a.replay) as f:
            only = json.load(f)["key"]
    try:
        if a.tier == "thorough" and not a.replay:
            from sa.selftest import harness
            return harness.run_thorough(a.prop, a.root, seed, write=not a.no_write)
        return run(a.prop, a.tier, a.root, write=not a.no_write and not a.replay, seed=seed, only_key=only)
    except Exception:
        print("ANALYSIS-ERROR property=%s %s" % (a.prop, traceback.format_exc().strip().replace("\n", " | ")))
        return 2


if __name__ == "__main__":
    sys.exit(main())
