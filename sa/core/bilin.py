"""Exact normal form for the scalar / vector algebra of the closest-point formulas: vectors are linear forms over named points, scalars are rational functions
(num / den) of polynomials in the inner products of those points.  `-a.dot(b - a) / np.dot(b - a, b - a)` and `(a.dot(a) - a.dot(b)) / (a.a - 2 a.b + b.b)`
get the same normal form; a flipped sign, a swapped operand or a wrong denominator does not.  Pure syntax-tree rewriting with exact rational arithmetic —
nothing is evaluated numerically."""
import ast
from fractions import Fraction

from .astutil import u, call_name


class NotAlgebraic(Exception):
    pass


# ---- polynomials: {monomial: Fraction}, monomial = sorted tuple of atoms (strings)
def p_const(c):
    return {(): Fraction(c)} if c != 0 else {}


def p_add(a, b, sign=1):
    out = dict(a)
    for m, c in b.items():
        out[m] = out.get(m, 0) + sign * c
        if out[m] == 0:
            del out[m]
    return out


def p_mul(a, b):
    out = {}
    for m1, c1 in a.items():
        for m2, c2 in b.items():
            m = tuple(sorted(m1 + m2))
            out[m] = out.get(m, 0) + c1 * c2
            if out[m] == 0:
                del out[m]
    return out


def p_neg(a):
    return {m: -c for m, c in a.items()}


class Scalar:
    def __init__(self, num, den=None):
        self.num, self.den = num, den if den is not None else p_const(1)

    def __eq__(self, o):
        return p_mul(self.num, o.den) == p_mul(o.num, self.den)

    def __repr__(self):
        return "(%s)/(%s)" % (show(self.num), show(self.den))


class Vector:
    """linear form: {point name: Scalar polynomial coefficient (den-free)}"""

    def __init__(self, terms):
        self.terms = {k: v for k, v in terms.items() if v}


def show(p):
    if not p:
        return "0"
    return " + ".join(("%s*" % c if c != 1 else "") + ("·".join(m) if m else "1") for m, c in sorted(p.items()))


def dot_atom(x, y):
    return "<%s,%s>" % tuple(sorted((x, y)))


class Algebra:
    def __init__(self, func_node, points, scalars=()):
        self.fn = func_node
        self.points = set(points)         # names that denote vectors (parameters)
        self.scalars = set(scalars)       # names that denote opaque scalars
        self.env = {}                     # local name -> Scalar | Vector

    def bind(self, name, val):
        self.env[name] = val

    def vec(self, e):
        v = self.ev(e)
        if not isinstance(v, Vector):
            raise NotAlgebraic("`%s` is not a vector" % u(e)[:40])
        return v

    def sca(self, e):
        v = self.ev(e)
        if not isinstance(v, Scalar):
            raise NotAlgebraic("`%s` is not a scalar" % u(e)[:40])
        return v

    def ev(self, e):
        if isinstance(e, ast.Constant) and isinstance(e.value, (int, float)) and not isinstance(e.value, bool):
            return Scalar(p_const(Fraction(str(e.value))))
        if isinstance(e, ast.Name):
            if e.id in self.env:
                return self.env[e.id]
            if e.id in self.points:
                return Vector({e.id: p_const(1)})
            if e.id in self.scalars:
                return Scalar({(e.id,): Fraction(1)})
            raise NotAlgebraic("name `%s`" % e.id)
        if isinstance(e, ast.UnaryOp) and isinstance(e.op, ast.USub):
            v = self.ev(e.operand)
            if isinstance(v, Vector):
                return Vector({k: p_neg(c) for k, c in v.terms.items()})
            return Scalar(p_neg(v.num), v.den)
        if isinstance(e, ast.UnaryOp) and isinstance(e.op, ast.UAdd):
            return self.ev(e.operand)
        if isinstance(e, ast.BinOp):
            if isinstance(e.op, ast.MatMult):
                return self.dot(self.vec(e.left), self.vec(e.right))
            a, b = self.ev(e.left), self.ev(e.right)
            if isinstance(e.op, (ast.Add, ast.Sub)):
                s = 1 if isinstance(e.op, ast.Add) else -1
                if isinstance(a, Vector) and isinstance(b, Vector):
                    out = dict(a.terms)
                    for k, c in b.terms.items():
                        out[k] = p_add(out.get(k, {}), c, s)
                    return Vector(out)
                if isinstance(a, Scalar) and isinstance(b, Scalar):
                    return Scalar(p_add(p_mul(a.num, b.den), p_mul(b.num, a.den), s), p_mul(a.den, b.den))
                raise NotAlgebraic("vector + scalar in `%s`" % u(e)[:40])
            if isinstance(e.op, ast.Mult):
                if isinstance(a, Scalar) and isinstance(b, Scalar):
                    return Scalar(p_mul(a.num, b.num), p_mul(a.den, b.den))
                s_, v_ = (a, b) if isinstance(a, Scalar) else (b, a)
                if isinstance(s_, Scalar) and isinstance(v_, Vector):
                    if s_.den != p_const(1):
                        raise NotAlgebraic("vector scaled by a quotient")
                    return Vector({k: p_mul(c, s_.num) for k, c in v_.terms.items()})
                raise NotAlgebraic("vector * vector in `%s`" % u(e)[:40])
            if isinstance(e.op, ast.Div):
                if isinstance(a, Scalar) and isinstance(b, Scalar):
                    if not b.num:
                        raise NotAlgebraic("division by zero")
                    return Scalar(p_mul(a.num, b.den), p_mul(a.den, b.num))
                raise NotAlgebraic("vector division in `%s`" % u(e)[:40])
            raise NotAlgebraic("operator in `%s`" % u(e)[:40])
        if isinstance(e, ast.Call):
            cn = call_name(e) or ""
            if cn in ("np.dot", "np.inner", "np.vdot") and len(e.args) == 2:
                return self.dot(self.vec(e.args[0]), self.vec(e.args[1]))
            if isinstance(e.func, ast.Attribute) and e.func.attr == "dot" and len(e.args) == 1:
                return self.dot(self.vec(e.func.value), self.vec(e.args[0]))
            if cn in ("float", "np.float64") and len(e.args) == 1:
                return self.ev(e.args[0])
            if cn in ("np.copy", "np.asarray", "np.ascontiguousarray") and len(e.args) == 1:
                return self.ev(e.args[0])
        raise NotAlgebraic("expression `%s`" % u(e)[:40])

    @staticmethod
    def dot(x, y):
        out = {}
        for k1, c1 in x.terms.items():
            for k2, c2 in y.terms.items():
                out = p_add(out, p_mul(p_mul(c1, c2), {(dot_atom(k1, k2),): Fraction(1)}))
        return Scalar(out)
