"""Partial evaluation as a normal form (on demand: rules that follow VALUES use it, rules that enumerate loops do not).

A maintainer can roll two copy-pasted passes into `for first in (True, False)`, or drive four blocks from a table
`for face in range(4): i, j, k = FACES[face] ... vertices[i]`.  Both are the original code after

  * small constant loops are unrolled (range(...) with constant bounds, literal tuples, module-level constant tables, enumerate/zip of those;
    at most MAX_ITER iterations, no break/continue/else of that loop, loop variables not assigned in the body),
  * literal tables are indexed (`T[c]` for a local or module-level tuple literal T and a constant c),
  * constants are propagated forward through straight-line code and joined at branches, and constant tests are decided,
  * tuple assignments whose right-hand side is a literal of the same arity are split when no target occurs on the right.

Every step is an identity of Python semantics under the stated side conditions; nothing is evaluated that the program would not evaluate (table
elements are names, constants or tuples of those — never calls)."""
import ast
import copy

MAX_ITER = 4


def _is_simple(e):
    """names / constants / attributes / tuples of those: copying the expression neither duplicates nor reorders an effect"""
    return all(isinstance(x, (ast.Name, ast.Constant, ast.Tuple, ast.List, ast.Attribute, ast.Load, ast.UnaryOp, ast.USub)) for x in ast.walk(e))


def module_tables(module):
    """module-level NAME = <literal of constants> assigned once"""
    out, counts = {}, {}
    for st in module.tree.body if hasattr(module, "tree") else []:
        if isinstance(st, ast.Assign) and len(st.targets) == 1 and isinstance(st.targets[0], ast.Name):
            n = st.targets[0].id
            counts[n] = counts.get(n, 0) + 1
            try:
                ast.literal_eval(st.value)
            except Exception:
                continue
            out[n] = st.value
    return {k: v for k, v in out.items() if counts.get(k) == 1}


def _stores(node_or_list):
    nodes = node_or_list if isinstance(node_or_list, list) else [node_or_list]
    out = set()
    for n0 in nodes:
        for n in ast.walk(n0):
            if isinstance(n, ast.Name) and isinstance(n.ctx, (ast.Store, ast.Del)):
                out.add(n.id)
    return out


def _const_value(e):
    if isinstance(e, ast.Constant):
        return True, e.value
    if isinstance(e, (ast.Tuple, ast.List)):
        vals = [_const_value(x) for x in e.elts]
        if all(v[0] for v in vals):
            return True, tuple(v[1] for v in vals)
    if isinstance(e, ast.UnaryOp) and isinstance(e.op, ast.USub) and isinstance(e.operand, ast.Constant) and isinstance(e.operand.value, (int, float)):
        return True, -e.operand.value
    return False, None


def _mk(v, like):
    if isinstance(v, tuple):
        return ast.copy_location(ast.Tuple(elts=[_mk(x, like) for x in v], ctx=ast.Load()), like)
    return ast.copy_location(ast.Constant(value=v), like)


class _PE:
    def __init__(self, tables, single, params):
        self.tables = tables          # module-level constant tables
        self.single = single          # locals assigned exactly once (candidates for local tables)
        self.params = params
        self.changed = False

    # ------------------------------------------------------------------ expressions
    def expr(self, e, env):
        pe = self

        class T(ast.NodeTransformer):
            def visit_Name(self, n):
                if isinstance(n.ctx, ast.Load) and n.id in env and isinstance(env[n.id], ast.Constant):
                    pe.changed = True
                    return ast.copy_location(copy.deepcopy(env[n.id]), n)
                return n

            def visit_Subscript(self, n):
                self.generic_visit(n)
                if isinstance(n.ctx, ast.Load) and isinstance(n.value, ast.Name):
                    tab = env.get(n.value.id) if isinstance(env.get(n.value.id), (ast.Tuple, ast.List)) else None
                    if tab is None and n.value.id not in env.get("<stored>", set()) and n.value.id in pe.tables:
                        tab = pe.tables[n.value.id]
                    ok, ix = _const_value(n.slice)
                    if tab is not None and ok and isinstance(ix, int) and not isinstance(ix, bool) and isinstance(tab, (ast.Tuple, ast.List)) \
                            and -len(tab.elts) <= ix < len(tab.elts):
                        pe.changed = True
                        return ast.copy_location(copy.deepcopy(tab.elts[ix]), n)
                return n

            def visit_BinOp(self, n):
                self.generic_visit(n)
                a, b = _const_value(n.left), _const_value(n.right)
                if a[0] and b[0] and all(isinstance(v, int) and not isinstance(v, bool) for v in (a[1], b[1])) \
                        and isinstance(n.op, (ast.Add, ast.Sub, ast.Mult)):
                    pe.changed = True
                    v = {ast.Add: a[1] + b[1], ast.Sub: a[1] - b[1], ast.Mult: a[1] * b[1]}[type(n.op)]
                    return _mk(v, n)
                return n

            def visit_UnaryOp(self, n):
                self.generic_visit(n)
                if isinstance(n.op, ast.Not) and isinstance(n.operand, ast.Constant) and isinstance(n.operand.value, (bool, int)):
                    pe.changed = True
                    return _mk(not n.operand.value, n)
                return n

            def visit_Compare(self, n):
                self.generic_visit(n)
                if len(n.ops) == 1:
                    a, b = _const_value(n.left), _const_value(n.comparators[0])
                    if a[0] and b[0] and all(isinstance(v, (int, bool)) for v in (a[1], b[1])):
                        f = {ast.Eq: lambda x, y: x == y, ast.NotEq: lambda x, y: x != y, ast.Lt: lambda x, y: x < y, ast.LtE: lambda x, y: x <= y,
                             ast.Gt: lambda x, y: x > y, ast.GtE: lambda x, y: x >= y}.get(type(n.ops[0]))
                        if f:
                            pe.changed = True
                            return _mk(f(a[1], b[1]), n)
                return n

            def visit_BoolOp(self, n):
                self.generic_visit(n)
                # constant operands decide / drop out (left-to-right, so no evaluation is skipped that Python would perform)
                vals = []
                for v in n.values:
                    if isinstance(v, ast.Constant) and isinstance(v.value, bool):
                        if isinstance(n.op, ast.And) and v.value is False or isinstance(n.op, ast.Or) and v.value is True:
                            if not vals:
                                pe.changed = True
                                return v
                            vals.append(v)
                            break
                        pe.changed = True
                        continue
                    vals.append(v)
                if not vals:
                    return _mk(isinstance(n.op, ast.And), n)
                if len(vals) == 1:
                    return vals[0]
                n.values = vals
                return n

            def visit_IfExp(self, n):
                self.generic_visit(n)
                if isinstance(n.test, ast.Constant) and isinstance(n.test.value, (bool, int)):
                    pe.changed = True
                    return n.body if n.test.value else n.orelse
                return n
        return T().visit(copy.deepcopy(e))

    # ------------------------------------------------------------------ statements
    def block(self, stmts, env):
        out = []
        for st in stmts:
            out.extend(self.stmt(st, env))
        return out

    def kill(self, env, names):
        for n in names:
            env.pop(n, None)
        env.setdefault("<stored>", set()).update(names)
        # a table that mentions a re-bound name is no longer the literal it was
        for k in [k for k, v in env.items() if isinstance(v, (ast.Tuple, ast.List)) and any(isinstance(x, ast.Name) and x.id in names for x in ast.walk(v))]:
            env.pop(k)

    def iterations(self, it, env):
        """list of element expressions for a small constant iterable, else None"""
        it = self.expr(it, env)
        if isinstance(it, ast.Call) and isinstance(it.func, ast.Name) and not it.keywords:
            if it.func.id == "range" and 1 <= len(it.args) <= 3:
                vals = [_const_value(a) for a in it.args]
                if all(v[0] and isinstance(v[1], int) and not isinstance(v[1], bool) for v in vals):
                    r = range(*[v[1] for v in vals])
                    if 0 < len(r) <= MAX_ITER:
                        return [_mk(k, it) for k in r]
                return None
            if it.func.id == "enumerate" and len(it.args) == 1:
                inner = self.iterations(it.args[0], env)
                if inner is not None:
                    return [ast.copy_location(ast.Tuple(elts=[_mk(i, it), e], ctx=ast.Load()), it) for i, e in enumerate(inner)]
                return None
            if it.func.id == "zip" and len(it.args) >= 2:
                parts = [self.iterations(a, env) for a in it.args]
                if all(p is not None for p in parts) and len({len(p) for p in parts}) == 1:
                    return [ast.copy_location(ast.Tuple(elts=list(es), ctx=ast.Load()), it) for es in zip(*parts)]
                return None
        if isinstance(it, ast.Name):
            tab = env.get(it.id) if isinstance(env.get(it.id), (ast.Tuple, ast.List)) else None
            if tab is None and it.id not in env.get("<stored>", set()) and it.id in self.tables:
                tab = self.tables[it.id]
            it = tab if tab is not None else it
        if isinstance(it, (ast.Tuple, ast.List)) and 0 < len(it.elts) <= MAX_ITER and all(_is_simple(e) for e in it.elts):
            return [copy.deepcopy(e) for e in it.elts]
        return None

    def stmt(self, st, env):
        if isinstance(st, ast.Assign):
            st = copy.copy(st)
            st.value = self.expr(st.value, env)
            stores = _stores(st.targets)
            # split `a, b = (x, y)` when no target occurs on the right
            if len(st.targets) == 1 and isinstance(st.targets[0], (ast.Tuple, ast.List)) and isinstance(st.value, (ast.Tuple, ast.List)) \
                    and len(st.targets[0].elts) == len(st.value.elts) and not any(isinstance(e, ast.Starred) for e in st.targets[0].elts + st.value.elts) \
                    and not (stores & {n.id for n in ast.walk(st.value) if isinstance(n, ast.Name)}) \
                    and all(isinstance(t, (ast.Name, ast.Tuple, ast.List)) for t in st.targets[0].elts):
                self.changed = True
                res = []
                for t, v in zip(st.targets[0].elts, st.value.elts):
                    res.extend(self.stmt(ast.copy_location(ast.Assign(targets=[t], value=v), st), env))
                return res
            self.kill(env, stores)
            if len(st.targets) == 1 and isinstance(st.targets[0], ast.Name):
                n = st.targets[0].id
                if isinstance(st.value, ast.Constant) and isinstance(st.value.value, (int, bool)) and st.value.value is not None:
                    env[n] = st.value
                elif isinstance(st.value, (ast.Tuple, ast.List)) and n in self.single and _is_simple(st.value) \
                        and all((x.id in self.params or x.id in self.single) for x in ast.walk(st.value) if isinstance(x, ast.Name)):
                    env[n] = st.value
            return [st]
        if isinstance(st, ast.AugAssign):
            st = copy.copy(st)
            st.value = self.expr(st.value, env)
            self.kill(env, _stores(st.target))
            return [st]
        if isinstance(st, (ast.Expr, ast.Return)) and st.value is not None:
            st = copy.copy(st)
            st.value = self.expr(st.value, env)
            return [st]
        if isinstance(st, ast.Assert):
            return [st]
        if isinstance(st, ast.If):
            test = self.expr(st.test, env)
            if isinstance(test, ast.Constant) and isinstance(test.value, (bool, int)):
                self.changed = True
                return self.block(st.body if test.value else st.orelse, env)
            e1, e2 = self._fork(env), self._fork(env)
            new = copy.copy(st)
            new.test = test
            new.body = self.block(st.body, e1) or [ast.copy_location(ast.Pass(), st)]
            new.orelse = self.block(st.orelse, e2)
            self._join(env, e1, e2)
            return [new]
        if isinstance(st, ast.For):
            its = self.iterations(st.iter, env)
            tnames = _stores(st.target)
            body_stores = _stores(st.body)
            own_jump = any(isinstance(x, (ast.Break, ast.Continue)) for x in self._own_level(st.body))
            if its is not None and not st.orelse and not own_jump and not (tnames & body_stores):
                self.changed = True
                out = []
                for e in its:
                    out.extend(self.stmt(ast.copy_location(ast.Assign(targets=[copy.deepcopy(st.target)], value=e), st), env))
                    out.extend(self.block(copy.deepcopy(st.body), env))
                return out
            self.kill(env, tnames | body_stores)
            new = copy.copy(st)
            new.iter = self.expr(st.iter, env)
            e1 = self._fork(env)
            new.body = self.block(st.body, e1)
            self.kill(env, tnames | body_stores)
            return [new]
        if isinstance(st, ast.While):
            self.kill(env, _stores(st.body))
            new = copy.copy(st)
            new.test = self.expr(st.test, env)
            e1 = self._fork(env)
            new.body = self.block(st.body, e1)
            self.kill(env, _stores(st.body))
            return [new]
        # anything else: conservatively forget what it may store
        self.kill(env, _stores(st))
        return [st]

    @staticmethod
    def _own_level(stmts):
        """nodes of the statements without descending into nested loops (their break/continue are theirs)"""
        stack = list(stmts)
        while stack:
            n = stack.pop()
            yield n
            if isinstance(n, (ast.For, ast.While, ast.FunctionDef, ast.Lambda)):
                continue
            for c in ast.iter_child_nodes(n):
                if isinstance(c, (ast.For, ast.While, ast.FunctionDef, ast.Lambda)):
                    continue
                stack.append(c)

    @staticmethod
    def _fork(env):
        e = dict(env)
        e["<stored>"] = set(env.get("<stored>", set()))
        return e

    @staticmethod
    def _join(env, e1, e2):
        keep = {}
        for k in set(e1) & set(e2):
            if k == "<stored>":
                continue
            if ast.dump(e1[k]) == ast.dump(e2[k]):
                keep[k] = e1[k]
        st = e1.get("<stored>", set()) | e2.get("<stored>", set())
        env.clear()
        env.update(keep)
        env["<stored>"] = st


def scalarise_tuples(fn, arity):
    """`t = f(...)` where f returns K-tuples and t is only read as `t[c]`, `t[a:b]` (constant bounds) or whole (returned / passed on / unpacked) becomes
    `t__0, ..., t__K-1 = f(...)`, the reads become the element names / tuples of them.  Not applied when t is tested (`t is None`, `if t`), stored into,
    assigned from anything but such calls, or captured by a nested function.  arity(call) -> K or None."""
    cands = {}
    bad = set()
    for st in ast.walk(fn):
        if isinstance(st, ast.Assign):
            for t in st.targets:
                if isinstance(t, ast.Name):
                    k = arity(st.value) if isinstance(st.value, ast.Call) else None
                    if k is None or len(st.targets) != 1 or cands.get(t.id, k) != k:
                        bad.add(t.id)
                    else:
                        cands[t.id] = k
                else:
                    for n in ast.walk(t):
                        if isinstance(n, ast.Name) and isinstance(n.ctx, ast.Store):
                            bad.add(n.id)
        elif isinstance(st, (ast.AugAssign, ast.For, ast.With, ast.NamedExpr, ast.comprehension)):
            tg = st.target if not isinstance(st, ast.With) else None
            for n in ast.walk(tg) if tg is not None else []:
                if isinstance(n, ast.Name):
                    bad.add(n.id)
        elif isinstance(st, (ast.FunctionDef, ast.Lambda)) and st is not fn:
            for n in ast.walk(st):
                if isinstance(n, ast.Name):
                    bad.add(n.id)
    cands = {k: v for k, v in cands.items() if k not in bad and k not in {a.arg for a in fn.args.args}}
    if not cands:
        return False
    # every load must be of an accepted form
    parent = {}
    for n in ast.walk(fn):
        for c in ast.iter_child_nodes(n):
            parent[c] = n
    for n in ast.walk(fn):
        if isinstance(n, ast.Name) and isinstance(n.ctx, ast.Load) and n.id in cands:
            p = parent.get(n)
            K = cands[n.id]
            if isinstance(p, ast.Subscript) and p.value is n and isinstance(p.ctx, ast.Load):
                ok, ix = _const_value(p.slice) if not isinstance(p.slice, ast.Slice) else (False, None)
                if ok and isinstance(ix, int) and not isinstance(ix, bool) and -K <= ix < K:
                    continue
                if isinstance(p.slice, ast.Slice) and p.slice.step is None and all(
                        b is None or (_const_value(b)[0] and isinstance(_const_value(b)[1], int)) for b in (p.slice.lower, p.slice.upper)):
                    continue
                cands.pop(n.id)
            elif isinstance(p, (ast.Return, ast.Tuple, ast.Call, ast.Assign, ast.Starred)) and not (isinstance(p, ast.Call) and p.func is n):
                continue
            else:
                cands.pop(n.id)
    if not cands:
        return False

    def elts(name, like, lo=0, hi=None):
        K = cands[name]
        return [ast.copy_location(ast.Name(id="%s__%d" % (name, i), ctx=ast.Load()), like) for i in range(K)][lo:hi]

    class T(ast.NodeTransformer):
        def visit_Assign(self, st):
            self.generic_visit(st)
            if len(st.targets) == 1 and isinstance(st.targets[0], ast.Name) and st.targets[0].id in cands:
                n = st.targets[0].id
                st.targets = [ast.copy_location(ast.Tuple(elts=[ast.Name(id="%s__%d" % (n, i), ctx=ast.Store()) for i in range(cands[n])], ctx=ast.Store()), st.targets[0])]
            return st

        def visit_Subscript(self, n):
            if isinstance(n.value, ast.Name) and n.value.id in cands and isinstance(n.ctx, ast.Load):
                name = n.value.id
                if isinstance(n.slice, ast.Slice):
                    lo = _const_value(n.slice.lower)[1] if n.slice.lower is not None else 0
                    hi = _const_value(n.slice.upper)[1] if n.slice.upper is not None else None
                    return ast.copy_location(ast.Tuple(elts=elts(name, n, lo, hi), ctx=ast.Load()), n)
                return elts(name, n)[_const_value(n.slice)[1]]
            self.generic_visit(n)
            return n

        def visit_Name(self, n):
            if isinstance(n.ctx, ast.Load) and n.id in cands:
                return ast.copy_location(ast.Tuple(elts=elts(n.id, n), ctx=ast.Load()), n)
            return n
    T().visit(fn)
    ast.fix_missing_locations(fn)
    return True


def peval_node(func_node, tables, arity=None, bind=None):
    """partially evaluated deep copy of a FunctionDef; bind: {parameter name: constant} specialises the function for those argument values"""
    fn = copy.deepcopy(func_node)
    if arity is not None:
        scalarise_tuples(fn, arity)
    counts = {}
    for n in ast.walk(fn):
        if isinstance(n, ast.Name) and isinstance(n.ctx, ast.Store):
            counts[n.id] = counts.get(n.id, 0) + 1
    params = {a.arg for a in fn.args.args + fn.args.kwonlyargs}
    single = {k for k, v in counts.items() if v == 1 and k not in params}
    for _ in range(4):
        pe = _PE(tables, single, params)
        env0 = {"<stored>": set()}
        for k_, v_ in (bind or {}).items():
            env0[k_] = ast.Constant(value=v_)
        fn.body = pe.block(fn.body, env0)
        if not pe.changed:
            break
        # unrolling makes more names multiply assigned; recompute for the next round
        counts = {}
        for n in ast.walk(fn):
            if isinstance(n, ast.Name) and isinstance(n.ctx, ast.Store):
                counts[n.id] = counts.get(n.id, 0) + 1
        single = {k for k, v in counts.items() if v == 1 and k not in params}
    ast.fix_missing_locations(fn)
    return fn


_CACHE = {}


def peval(idx, f):
    """copy of the FuncInfo whose .node is partially evaluated (cached per Index and function)"""
    key = (id(idx), f.key)
    if key not in _CACHE:
        g = copy.copy(f)

        def arity(call):
            callee = idx.resolve_call(f.module, call, getattr(f, "cls", None))
            node = getattr(callee, "node", None)
            if not isinstance(node, ast.FunctionDef):
                return None
            ks = set()
            for r in ast.walk(node):
                if isinstance(r, ast.Return):
                    if r.value is None or (isinstance(r.value, ast.Constant) and r.value.value is None):
                        return None          # a None-or-tuple result is tested by the caller: leave it alone
                    if not isinstance(r.value, ast.Tuple):
                        return None
                    ks.add(len(r.value.elts))
            return ks.pop() if len(ks) == 1 else None
        g.node = peval_node(f.node, module_tables(f.module), arity)
        _CACHE[key] = (idx, g)        # keep idx alive so that id() is not reused
    return _CACHE[key][1]
