"""Expression-level expansion of trivial helpers.

A developer may extract a piece of arithmetic into a helper (`face_set_to_tetrahedron_set(mask, 0, 2, 3)`); an evaluator that
reads the arithmetic must see through such a call.  expand_helpers() replaces every call whose callee resolves (through the
Index) to a library function consisting of plain local assignments followed by one `return <expr>` with that expression,
parameters substituted by the arguments.  Nothing is executed; a callee of any other shape is left as the call it is."""
import ast
import copy

from .astutil import strip_docstring


def _simple_body(fn):
    body = strip_docstring(fn.body)
    if not body or not isinstance(body[-1], ast.Return) or body[-1].value is None:
        return None
    assigns = []
    for st in body[:-1]:
        if isinstance(st, ast.Assign) and len(st.targets) == 1 and isinstance(st.targets[0], ast.Name):
            assigns.append((st.targets[0].id, st.value))
        else:
            return None
    return assigns, body[-1].value


def _subst(expr, env):
    class S(ast.NodeTransformer):
        def visit_Name(self, n):
            if isinstance(n.ctx, ast.Load) and n.id in env:
                return copy.deepcopy(env[n.id])
            return n
    return S().visit(copy.deepcopy(expr))


def bind_args(fn, call):
    """parameter name -> argument node for a call of the FunctionDef fn, or None when the call is not plain"""
    a = fn.args
    if a.vararg or a.kwarg or a.posonlyargs or any(isinstance(x, ast.Starred) for x in call.args) or any(k.arg is None for k in call.keywords):
        return None
    names = [x.arg for x in a.args]
    if len(call.args) > len(names):
        return None
    env = dict(zip(names, call.args))
    for k in call.keywords:
        if k.arg in env or (k.arg not in names and k.arg not in [x.arg for x in a.kwonlyargs]):
            return None
        env[k.arg] = k.value
    defaults = dict(zip(names[len(names) - len(a.defaults):], a.defaults))
    for x, d in zip(a.kwonlyargs, a.kw_defaults):
        if d is not None:
            defaults[x.arg] = d
    for n in names + [x.arg for x in a.kwonlyargs]:
        if n not in env:
            if n not in defaults:
                return None
            env[n] = defaults[n]
    return env


def expand_helpers(idx, module, node, depth=2, cls=None, only=None):
    """only: optional predicate on the resolved callee (FuncInfo) restricting which helpers are expanded"""
    if depth <= 0:
        return node

    class T(ast.NodeTransformer):
        def visit_Call(self, n):
            self.generic_visit(n)
            callee = idx.resolve_call(module, n, cls)
            fn = getattr(callee, "node", None)
            if not isinstance(fn, ast.FunctionDef) or getattr(callee, "cls", None) is not None or (only is not None and not only(callee)):
                return n
            sb = _simple_body(fn)
            env = bind_args(fn, n) if sb else None
            if env is None:
                return n
            assigns, ret = sb
            for name, e in assigns:
                env[name] = _subst(e, env)
            res = _subst(ret, env)
            return expand_helpers(idx, callee.module, res, depth - 1, only=only)
    return T().visit(copy.deepcopy(node))


# ---------------------------------------------------------------------------------------------------------------------------------
# Statement-level normal form: see through three refactorings that move code without changing what it does
#   (1) `for x in (c1, c2, ...)` over a literal tuple / list of constants      -> the body once per constant
#   (2) `if helper(args): T` where helper is  A*; if C: S*; return True; return False  (module-level, straight-line A / S)
#                                                                              -> A*; if C: S*; T
#   (3) `recv.method(args)` as a statement where the method body is straight-line stores
#                                                                              -> the stores with self := recv
# Helper locals get a unique suffix so that several expansions do not capture each other.

def _straight(stmts):
    return all(isinstance(s, (ast.Assign, ast.AugAssign)) or (isinstance(s, ast.Expr) and isinstance(s.value, ast.Constant)) for s in stmts)


def _rename_locals(stmts, env, tag):
    """deep copy of stmts with parameters substituted (env) and every other stored local renamed name -> name__tag"""
    stmts = [copy.deepcopy(s) for s in stmts]
    local = set()
    for s in stmts:
        for n in ast.walk(s):
            if isinstance(n, ast.Name) and isinstance(n.ctx, ast.Store) and n.id not in env:
                local.add(n.id)

    class S(ast.NodeTransformer):
        def visit_Name(self, n):
            if n.id in env and isinstance(n.ctx, ast.Load):
                return copy.deepcopy(env[n.id])
            if n.id in local:
                return ast.copy_location(ast.Name(id="%s__%s" % (n.id, tag), ctx=n.ctx), n)
            return n
    return [S().visit(s) for s in stmts]


def _bool_helper(fn):
    """(A*, C, S*) when fn is  A*; if C: S*; return True; return False"""
    body = strip_docstring(fn.body)
    if len(body) < 2 or not isinstance(body[-1], ast.Return) or not (isinstance(body[-1].value, ast.Constant) and body[-1].value.value is False):
        return None
    iff = body[-2]
    if not isinstance(iff, ast.If) or iff.orelse or not iff.body or not isinstance(iff.body[-1], ast.Return) \
            or not (isinstance(iff.body[-1].value, ast.Constant) and iff.body[-1].value.value is True):
        return None
    if not _straight(body[:-2]) or not _straight(iff.body[:-1]):
        return None
    return body[:-2], iff.test, iff.body[:-1]


def normalise_statements(idx, module, stmts, cls=None, depth=3, keep=()):
    """the statement list in normal form (deep copies; the Index is not modified); methods named in `keep` are not opened"""
    counter = [0]

    def methods_named(name):
        out = []
        for m in idx.lib_modules():
            for ci in m.classes.values():
                if name in ci.methods:
                    out.append(ci.methods[name])
        return out

    def norm(stmts, depth):
        out = []
        for st in stmts:
            # (1) literal loops (`for v in range(k)` with small constant bounds is the literal loop over 0 .. k-1)
            if isinstance(st, ast.For) and isinstance(st.iter, ast.Call) and isinstance(st.iter.func, ast.Name) and st.iter.func.id == "range" \
                    and 1 <= len(st.iter.args) <= 2 and not st.iter.keywords \
                    and all(isinstance(a_, ast.Constant) and isinstance(a_.value, int) and not isinstance(a_.value, bool) for a_ in st.iter.args):
                lo_, hi_ = (0, st.iter.args[0].value) if len(st.iter.args) == 1 else (st.iter.args[0].value, st.iter.args[1].value)
                if 0 < hi_ - lo_ <= 8:
                    st = copy.copy(st)
                    st.iter = ast.copy_location(ast.Tuple(elts=[ast.copy_location(ast.Constant(value=k_), st.iter) for k_ in range(lo_, hi_)], ctx=ast.Load()), st.iter)
            if isinstance(st, ast.For) and not st.orelse and isinstance(st.iter, (ast.Tuple, ast.List)) and st.iter.elts and len(st.iter.elts) <= 8 \
                    and not any(isinstance(x, (ast.Break, ast.Continue)) for b in st.body for x in ast.walk(b)):
                # the loop variable(s) must not be assigned in the body, and a tuple target needs literal tuples of the same arity
                tnames = [st.target.id] if isinstance(st.target, ast.Name) else ([e.id for e in st.target.elts] if isinstance(st.target, ast.Tuple) and all(isinstance(e, ast.Name) for e in st.target.elts) else None)
                envs = []
                if tnames is not None and not any(isinstance(x, ast.Name) and x.id in tnames and isinstance(x.ctx, ast.Store) for b in st.body for x in ast.walk(b)):
                    for e in st.iter.elts:
                        if isinstance(st.target, ast.Name):
                            envs.append({st.target.id: e})
                        elif isinstance(e, (ast.Tuple, ast.List)) and len(e.elts) == len(tnames):
                            envs.append(dict(zip(tnames, e.elts)))
                        else:
                            envs = None
                            break
                    # element expressions must be side-effect free names / constants / tuples of those
                    if envs is not None and all(isinstance(x, (ast.Name, ast.Constant, ast.Tuple, ast.List, ast.Load, ast.UnaryOp, ast.USub, ast.Attribute, ast.Subscript)) for env_ in envs for v_ in env_.values() for x in ast.walk(v_)):
                        for env_ in envs:
                            out.extend(norm([_subst_stmt(b, env_) for b in st.body], depth))
                        continue
            # (2) boolean helper in an if test
            if isinstance(st, ast.If) and isinstance(st.test, ast.Call) and depth > 0:
                callee = idx.resolve_call(module, st.test, cls)
                fn = getattr(callee, "node", None)
                bh = _bool_helper(fn) if isinstance(fn, ast.FunctionDef) and getattr(callee, "cls", None) is None else None
                env = bind_args(fn, st.test) if bh else None
                if env is not None and not st.orelse:
                    counter[0] += 1
                    tag = "h%d" % counter[0]
                    A, C, S = bh
                    pre = _rename_locals(A + [ast.Expr(value=C)] + S, env, tag)
                    a2, c2, s2 = pre[:len(A)], pre[len(A)].value, pre[len(A) + 1:]
                    new_if = ast.copy_location(ast.If(test=c2, body=norm(s2, depth - 1) + norm(st.body, depth), orelse=[]), st)
                    out.extend(norm(a2, depth - 1))
                    out.append(new_if)
                    continue
            # (3) straight-line method called as a statement
            if isinstance(st, ast.Expr) and isinstance(st.value, ast.Call) and isinstance(st.value.func, ast.Attribute) and depth > 0:
                ms = methods_named(st.value.func.attr) if st.value.func.attr not in keep else []
                if len(ms) == 1:
                    fn = ms[0].node
                    body = strip_docstring(fn.body)
                    if body and _straight(body) and fn.args.args and fn.args.args[0].arg == "self":
                        shim = copy.deepcopy(fn)
                        shim.args.args = shim.args.args[1:]
                        env = bind_args(shim, st.value)
                        if env is not None:
                            counter[0] += 1
                            env["self"] = st.value.func.value
                            new = _rename_locals(body, env, "m%d" % counter[0])
                            for n_ in new:
                                ast.copy_location(n_, st)
                            out.extend(new)
                            continue
            st = copy.copy(st)
            for fld in ("body", "orelse", "finalbody"):
                blk = getattr(st, fld, None)
                if isinstance(blk, list) and blk and isinstance(blk[0], ast.stmt):
                    setattr(st, fld, norm(blk, depth))
            out.append(st)
        return out

    res = norm(stmts, depth)
    for s in res:
        ast.fix_missing_locations(s)
    return res


def _subst_stmt(stmt, env):
    class S(ast.NodeTransformer):
        def visit_Name(self, n):
            if isinstance(n.ctx, ast.Load) and n.id in env:
                return ast.copy_location(copy.deepcopy(env[n.id]), n)
            return n
    return S().visit(copy.deepcopy(stmt))


def inline_single_exit_helpers(idx, module, func_node, only=None, depth=2, opened=None):
    """Statement-level normal form: `T = helper(args)` (or `return helper(args)` / a bare call statement) where the helper is a library function
    whose only `return` is its last statement is replaced by the helper's body — parameters substituted by the (simple) arguments or bound to fresh
    temporaries, the helper's locals renamed apart — followed by `T = <returned expression>`.  A loop that was moved into a helper is a loop of the
    caller again.  `only(callee)` restricts which helpers are opened."""
    fn = copy.deepcopy(func_node)
    counter = [0]

    def simple(e):
        if isinstance(e, ast.Call) and isinstance(e.func, ast.Name) and e.func.id == "len" and len(e.args) == 1 and not e.keywords:
            return simple(e.args[0])          # len(x) of a simple x: cheap, pure, safe to repeat
        return isinstance(e, (ast.Name, ast.Constant)) or (isinstance(e, (ast.Attribute, ast.Subscript)) and all(
            isinstance(x, (ast.Name, ast.Constant, ast.Attribute, ast.Subscript, ast.Tuple, ast.Load, ast.Slice, ast.BinOp, ast.Add, ast.Sub)) for x in ast.walk(e)))

    def open_call(call, mod):
        callee = idx.resolve_call(mod, call, None)
        cf = getattr(callee, "node", None)
        if not isinstance(cf, ast.FunctionDef) or getattr(callee, "cls", None) is not None or (only is not None and not only(callee)):
            return None
        body = strip_docstring(cf.body)
        rets = [n for n in ast.walk(cf) if isinstance(n, ast.Return)]
        procedure = not rets
        if not body or (not procedure and (len(rets) != 1 or body[-1] is not rets[0] or rets[0].value is None)):
            return None
        if any(isinstance(n, (ast.Yield, ast.YieldFrom, ast.Global, ast.Nonlocal, ast.FunctionDef, ast.Lambda)) for b in body for n in ast.walk(b)):
            return None
        env = bind_args(cf, call)
        if env is None:
            return None
        if opened is not None:
            opened.add(callee.key)
        counter[0] += 1
        tag = "i%d" % counter[0]
        pre = []
        # a parameter that is only updated in place (`data += ...`) keeps denoting the caller's object: substituted, not copied to a temporary
        aug_only = {n.target.id for b in body for n in ast.walk(b) if isinstance(n, ast.AugAssign) and isinstance(n.target, ast.Name)}
        plain = {t.id for b in body for n in ast.walk(b) if isinstance(n, (ast.Assign, ast.For)) for t in ast.walk(n.targets[0] if isinstance(n, ast.Assign) else n.target)
                 if isinstance(t, ast.Name) and isinstance(t.ctx, ast.Store)}
        stored = {n.id for b in body for n in ast.walk(b) if isinstance(n, ast.Name) and isinstance(n.ctx, ast.Store)} - (aug_only - plain)
        for p_, a_ in list(env.items()):
            if not simple(a_) or p_ in stored:
                tmp = "%s__%s" % (p_, tag)
                pre.append(ast.Assign(targets=[ast.Name(id=tmp, ctx=ast.Store())], value=copy.deepcopy(a_)))
                env[p_] = ast.Name(id=tmp, ctx=ast.Load())
                if p_ in stored:
                    # the helper assigns its parameter: keep a caller-side temporary under the renamed name
                    pre[-1] = ast.Assign(targets=[ast.Name(id="%s__%s" % (p_, tag), ctx=ast.Store())], value=copy.deepcopy(a_))
                    env.pop(p_)
        if procedure:
            return pre + _rename_locals(body, env, tag), None
        stmts = _rename_locals(body[:-1] + [ast.Expr(value=rets[0].value)], env, tag)
        # parameters that are assigned in the helper were removed from env: they are locals now, renamed by _rename_locals to <p>__tag (same name as the temp)
        return pre + stmts[:-1], stmts[-1].value

    def norm(stmts, mod, d):
        out = []
        for st in stmts:
            call = None
            if isinstance(st, ast.Assign) and isinstance(st.value, ast.Call):
                call = st.value
            elif isinstance(st, ast.Return) and isinstance(st.value, ast.Call):
                call = st.value
            elif isinstance(st, ast.Expr) and isinstance(st.value, ast.Call):
                call = st.value
            if call is not None and d > 0:
                r = open_call(call, mod)
                if r is not None and (r[1] is not None or isinstance(st, ast.Expr)):
                    pre, val = r
                    for x in pre:
                        for y in ast.walk(x):
                            if hasattr(y, "lineno"):
                                y.lineno = st.lineno
                        ast.copy_location(x, st)
                    out.extend(norm(pre, mod, d - 1))
                    if val is not None:
                        new = copy.copy(st)
                        new.value = val
                        out.append(new)
                    continue
            st = copy.copy(st)
            for fld in ("body", "orelse", "finalbody"):
                blk = getattr(st, fld, None)
                if isinstance(blk, list) and blk and isinstance(blk[0], ast.stmt):
                    setattr(st, fld, norm(blk, mod, d))
            out.append(st)
        return out
    fn.body = norm(fn.body, module, depth)
    ast.fix_missing_locations(fn)
    return fn


def push_returns(func_node):
    """Single-exit form -> early returns:  `if c1: ...; r = e1  elif c2: ...; r = e2  else: ...; r = e3` followed by `return r` (r a local that is
    only assigned as the LAST statement of every leaf of the chain and read nowhere else) becomes the chain with `return e_k` in its leaves.
    Both forms compute the same; rules that read `return data, code` per case then see one shape.  Returns a deep copy."""
    fn = copy.deepcopy(func_node)
    body = fn.body
    if len(body) < 2 or not isinstance(body[-1], ast.Return) or not isinstance(body[-1].value, ast.Name) or not isinstance(body[-2], ast.If):
        return fn
    r = body[-1].value.id
    loads = [n for n in ast.walk(fn) if isinstance(n, ast.Name) and n.id == r and isinstance(n.ctx, ast.Load)]
    if len(loads) != 1:
        return fn

    def leaves(iff):
        out = [iff.body]
        if len(iff.orelse) == 1 and isinstance(iff.orelse[0], ast.If):
            out += leaves(iff.orelse[0])
        elif iff.orelse:
            out.append(iff.orelse)
        else:
            out.append(None)
        return out
    ls = leaves(body[-2])
    if any(l is None or not l or not (isinstance(l[-1], ast.Assign) and len(l[-1].targets) == 1 and isinstance(l[-1].targets[0], ast.Name) and l[-1].targets[0].id == r) for l in ls):
        return fn
    stores = [n for n in ast.walk(fn) if isinstance(n, ast.Name) and n.id == r and isinstance(n.ctx, ast.Store)]
    if len(stores) != len(ls) + sum(1 for st in body[:-2] if isinstance(st, ast.Assign) and any(isinstance(t, ast.Name) and t.id == r for t in st.targets)):
        return fn
    for l in ls:
        l[-1] = ast.copy_location(ast.Return(value=l[-1].value), l[-1])
    fn.body = body[:-1]
    ast.fix_missing_locations(fn)
    return fn



def dup_tail(func_node):
    """Tail duplication: `if c: A  else: B` followed by straight-line statements T ending in `return E` becomes `if c: A; T  else: B; T` (recursively through
    elif chains; arms that already leave the function are left alone).  Always behaviour-preserving; the single-exit form with result variables assigned in
    both arms then reads as the early-return form: each path has its own straight-line definitions in front of its own return.  Returns a deep copy."""
    fn = copy.deepcopy(func_node)

    def leaves_done(stmts):
        return bool(stmts) and isinstance(stmts[-1], (ast.Return, ast.Raise))

    def rewrite(body):
        for i, st in enumerate(body):
            if isinstance(st, ast.If) and st.orelse and i + 1 < len(body):
                tail = body[i + 1:]
                if not isinstance(tail[-1], ast.Return) or len(tail) > 4 or any(isinstance(x, (ast.If, ast.For, ast.While, ast.Try, ast.With)) for x in tail):
                    continue

                def fill(iff):
                    if not leaves_done(iff.body):
                        iff.body = rewrite(iff.body + copy.deepcopy(tail))
                    if len(iff.orelse) == 1 and isinstance(iff.orelse[0], ast.If) and iff.orelse[0].orelse:
                        fill(iff.orelse[0])
                    elif not leaves_done(iff.orelse):
                        iff.orelse = rewrite(iff.orelse + copy.deepcopy(tail))
                fill(st)
                return body[:i + 1]
        return body
    fn.body = rewrite(fn.body)
    ast.fix_missing_locations(fn)
    return fn
