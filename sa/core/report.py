"""Verdict bookkeeping: obligations, violations, known findings, evidence files, exit protocol."""
import json
import os
import sys
import time

VERIF = os.path.dirname(os.path.dirname(os.path.dirname(os.path.abspath(__file__))))
KNOWN_FILE = os.path.join(VERIF, "known_findings.json")
EVIDENCE_DIR = os.path.join(VERIF, "evidence")


def load_known():
    if not os.path.exists(KNOWN_FILE):
        return {"findings": [], "fixed": []}
    with open(KNOWN_FILE) as f:
        return json.load(f)


import re as _re
_FKEY = _re.compile(r"distance3d(?:\.\w+)*::[\w.<>]+")


class Report:
    """Collects the rule instances (obligations) examined by one property check."""

    def __init__(self, prop_id, tier, root, seed=0):
        self.prop_id = prop_id
        self.tier = tier
        self.root = root
        self.seed = seed
        self.t0 = time.time()
        self.instances = []      # dict(rule, key, where, ok, detail, verdict)
        self.notes = []
        self.rules = {}          # rule -> dict(desc, floor, count, unknown, ceiling)
        self.assumptions = []
        self.explanation = ""
        self.errors = []
        self.extra = {}

    # ------------------------------------------------------------------ recording
    def rule(self, name, desc, floor=1, unknown_ceiling=None):
        self._last_rule = name
        self.rules.setdefault(name, {"desc": desc, "floor": floor, "count": 0, "ok": 0, "bad": 0,
                                     "unknown": 0, "unknown_ceiling": unknown_ceiling})

    def ok(self, rule, key, where, detail=""):
        self._add(rule, key, where, "OK", detail)

    def bad(self, rule, key, where, detail):
        self._add(rule, key, where, "BAD", detail)

    def unknown(self, rule, key, where, detail=""):
        self._add(rule, key, where, "UNKNOWN", detail)

    def check(self, cond, rule, key, where, detail_bad, detail_ok=""):
        if cond:
            self.ok(rule, key, where, detail_ok)
        else:
            self.bad(rule, key, where, detail_bad)
        return cond

    # ------------------------------------------------------------------ property scope
    def set_scope(self, funcs):
        """funcs: {function key} reachable from the property's entry points (sa/props/scopes.py).  Instances keyed by a function
        outside this set are not obligations of this property and are dropped (counted in extra['out_of_scope_dropped'])."""
        self.scope = set(funcs)
        self._scope_prefixes = set()
        for k in self.scope:
            mod, _, q = k.partition("::")
            parts = q.split(".")
            for i in range(1, len(parts)):
                self._scope_prefixes.add(mod + "::" + ".".join(parts[:i]))
        self.extra["scope_functions"] = len(self.scope)
        self.extra["out_of_scope_dropped"] = 0

    def in_scope(self, key):
        if getattr(self, "scope", None) is None:
            return True
        m = _FKEY.search(key)
        if not m:
            return True
        fk = m.group(0)
        return fk in self.scope or fk in self._scope_prefixes or fk.split(".<locals>")[0] in self.scope

    def _add(self, rule, key, where, verdict, detail):
        if rule not in self.rules:
            self.rule(rule, rule)
        if not self.in_scope(key):
            self.extra["out_of_scope_dropped"] += 1
            return
        r = self.rules[rule]
        r["count"] += 1
        r[{"OK": "ok", "BAD": "bad", "UNKNOWN": "unknown"}[verdict]] += 1
        self.instances.append({"rule": rule, "key": "%s|%s" % (rule, key), "where": where,
                               "verdict": verdict, "detail": detail})

    def note(self, txt):
        self.notes.append(txt)

    def error(self, txt):
        self.errors.append(txt)

    # ------------------------------------------------------------------ finishing
    def finish(self, write=True):
        known = load_known()
        known_keys = {}
        for k in known.get("findings", []):
            if k.get("property") == self.prop_id and k.get("status", "known") == "known":
                known_keys[k["key"]] = k
        # floors / ceilings
        for name, r in self.rules.items():
            if r["count"] < r["floor"]:
                self.errors.append("rule %s matched %d instances, floor is %d (rule would pass vacuously)"
                                   % (name, r["count"], r["floor"]))
            if r["unknown_ceiling"] is not None and r["unknown"] > r["unknown_ceiling"]:
                self.errors.append("rule %s: %d UNKNOWN verdicts exceed the ceiling %d (analysis lost track)"
                                   % (name, r["unknown"], r["unknown_ceiling"]))
        bad = [i for i in self.instances if i["verdict"] == "BAD"]
        new, listed = [], []
        seen = set()
        for b in bad:
            if b["key"] in seen:
                continue
            seen.add(b["key"])
            if b["key"] not in known_keys:
                # a listed finding may be identified by the construct it is about (rule | function | assigned name) rather than by the full text of
                # the statement, so that renaming a temporary on its right-hand side does not turn a recorded defect into a new one
                for kk in list(known_keys.values()):
                    pre = kk.get("key_prefix")
                    if pre and b["key"].startswith(pre):
                        known_keys[b["key"]] = kk
                        break
            (listed if b["key"] in known_keys else new).append(b)
        wall = time.time() - self.t0
        lines = []
        if os.environ.get("VERIF_SHOW_UNKNOWN"):
            for i in self.instances:
                if i["verdict"] == "UNKNOWN":
                    lines.append("UNKNOWN %s @ %s: %s" % (i["key"], i["where"], i["detail"][:300]))
        for b in listed:
            lines.append("KNOWN-FINDING: property=%s %s [%s @ %s]" % (
                self.prop_id, known_keys[b["key"]].get("what", b["detail"]), b["key"], b["where"]))
        replay_paths = []
        if new and write:
            os.makedirs(os.path.join(EVIDENCE_DIR, "replay"), exist_ok=True)
        for n, b in enumerate(new):
            path = os.path.join(EVIDENCE_DIR, "replay", "%s-%d.json" % (self.prop_id, n))
            if write:
                with open(path, "w") as f:
                    json.dump({"property": self.prop_id, "rule": b["rule"], "key": b["key"],
                               "where": b["where"], "detail": b["detail"],
                               "rule_description": self.rules[b["rule"]]["desc"],
                               "root": self.root}, f, indent=1)
            replay_paths.append(path)
            lines.append("  %s  %s\n      %s" % (b["where"], b["key"], b["detail"]))
            lines.append("VIOLATION property=%s replay=%s" % (self.prop_id, path))
        if self.errors:
            for e in self.errors:
                lines.append("ANALYSIS-ERROR property=%s %s" % (self.prop_id, e))
        for n in self.notes:
            lines.append("NOTE: %s" % n)
        status = 2 if self.errors else (1 if new else 0)
        if write:
            self._write_evidence(wall, new, listed, status)
        summary = "%s %s: %d instances over %d rules; ok=%d unknown=%d known-findings=%d violations=%d (%.2fs)" % (
            self.prop_id, self.tier, len(self.instances), len(self.rules),
            sum(1 for i in self.instances if i["verdict"] == "OK"),
            sum(1 for i in self.instances if i["verdict"] == "UNKNOWN"),
            len(listed), len(new), wall)
        # a vanished anchor never prints VIOLATION lines: analysis broken beats a verdict
        if status == 2:
            lines = [l for l in lines if not l.startswith("VIOLATION")]
        print("\n".join(lines + [summary]))
        return status

    def _write_evidence(self, wall, new, listed, status):
        os.makedirs(EVIDENCE_DIR, exist_ok=True)
        evaluated = [i for i in self.instances if i["verdict"] != "UNKNOWN"]
        distinct = len({i["key"] for i in evaluated})
        samples = []
        per_rule_seen = {}
        for i in self.instances:
            c = per_rule_seen.get(i["rule"], 0)
            if c < 3 or i["verdict"] == "BAD":
                samples.append({k: i[k] for k in ("rule", "key", "where", "verdict", "detail")})
            per_rule_seen[i["rule"]] = c + 1
        discharged = sum(1 for i in self.instances if i["verdict"] == "OK") + \
            sum(1 for i in self.instances if i["verdict"] == "BAD" and i["key"] in {b["key"] for b in listed})
        ev = {
            "property_id": self.prop_id,
            "tier": self.tier,
            "seed": int(self.seed),
            "level": "other",
            "coverage": {
                "explanation": self.explanation or "static rules over the ast of /repo's current source",
                "obligations": len(self.instances),
                "discharged": discharged,
                "evaluations": max(1, len(self.instances)),
                "distinct_nontrivial": distinct,
                "rule": "one obligation per rule instance discovered in the current source; an instance is "
                        "non-trivial when its rule body was evaluated to OK/BAD (UNKNOWN verdicts of the abstract "
                        "interpreters are excluded); distinct = distinct (rule, construct) keys",
                "samples": samples[:60],
                "exhaustive": True,
                "rules": {k: {kk: vv for kk, vv in v.items()} for k, v in self.rules.items()},
                "known_findings_reported": [b["key"] for b in listed],
                "violation_keys": [b["key"] for b in new],
                "analysis_errors": self.errors,
                "notes": self.notes[:40],
                "root": self.root,
                "exit_status": status,
            },
            "assumptions": self.assumptions,
            "wall_s": round(wall, 3),
            "violations": len(new),
        }
        ev["coverage"].update(self.extra)
        with open(os.path.join(EVIDENCE_DIR, "%s.json" % self.prop_id), "w") as f:
            json.dump(ev, f, indent=1, default=str)


DOMAIN_D = [
    "domain D of the properties: public-API array arguments are float64, C-contiguous, well formed "
    "(unit normals/directions, orthonormal poses, strictly positive sizes)",
    "the check decides structural clauses named in MANIFEST.level_claimed.text only; every tolerance, "
    "optimality and floating-point clause of the property is NOT decided",
    "python's ast module parses the same program the interpreter / numba would see",
]
