"""Enumeration of the INDEX SPACE of a loop nest: which rows of which arrays reach which calls, and which integers are appended to which lists, when the
arrays have n1, n2, ... rows.

Only integer expressions are evaluated (range bounds, `len(A)`, `A.shape[0]`, comparisons of loop variables such as `k != i`); every call on the data is
recorded with the integer indices of the rows it receives (`f(A[i], B[j])` -> ('call', 'f', (('A', i), ('B', j)))), every `L.append(e)` / `L.extend([e..])`
with the integer value(s) of e.  Conditions that are not integer comparisons are taken both ways (the events of both arms are recorded); a conjunction is
short-circuited on its integer atoms, so `k != i and k != j and outside(H[k], p)` records H[k] only for k outside {i, j}.  Private helpers of the same
module that receive a whole array are entered.  Nothing of the repository is executed: the arrays have no contents, only a number of rows."""
import ast

from .astutil import u, call_name, const


class NotEnumerable(Exception):
    pass


class Enumerator:
    def __init__(self, sizes, resolve=None, budget=200000):
        self.sizes = dict(sizes)          # array name -> number of rows
        self.resolve = resolve            # ast.Call -> FunctionDef of a private helper, or None
        self.events = []
        self.budget = budget

    # ---------------------------------------------------------------- integers
    def ieval(self, e, env, arrs):
        if isinstance(e, ast.Constant) and isinstance(e.value, int) and not isinstance(e.value, bool):
            return e.value
        if isinstance(e, ast.Name):
            v = env.get(e.id)
            if isinstance(v, int) and not isinstance(v, bool):
                return v
            raise NotEnumerable("`%s` is not an integer of the index space" % e.id)
        if isinstance(e, ast.Call) and call_name(e) == "len" and len(e.args) == 1 and u(e.args[0]) in arrs:
            return self.sizes[arrs[u(e.args[0])]]
        if isinstance(e, ast.Subscript) and isinstance(e.value, ast.Attribute) and e.value.attr == "shape" and u(e.value.value) in arrs and const(e.slice) == 0:
            return self.sizes[arrs[u(e.value.value)]]
        if isinstance(e, ast.UnaryOp) and isinstance(e.op, ast.USub):
            return -self.ieval(e.operand, env, arrs)
        if isinstance(e, ast.BinOp):
            a, b = self.ieval(e.left, env, arrs), self.ieval(e.right, env, arrs)
            if isinstance(e.op, ast.Add):
                return a + b
            if isinstance(e.op, ast.Sub):
                return a - b
            if isinstance(e.op, ast.Mult):
                return a * b
            if isinstance(e.op, ast.FloorDiv) and b != 0:
                return a // b
            if isinstance(e.op, ast.Mod) and b != 0:
                return a % b
        if isinstance(e, ast.Call) and call_name(e) in ("min", "max") and e.args and not e.keywords:
            vals = [self.ieval(a, env, arrs) for a in e.args]
            return min(vals) if call_name(e) == "min" else max(vals)
        raise NotEnumerable("`%s` is not an integer expression" % u(e)[:40])

    def _value(self, e, env, arrs):
        """integer, tuple of integers, or None"""
        try:
            if isinstance(e, (ast.Tuple, ast.List)):
                return tuple(self.ieval(x, env, arrs) for x in e.elts)
            return self.ieval(e, env, arrs)
        except NotEnumerable:
            return None

    # ---------------------------------------------------------------- events
    def record(self, expr, env, arrs, depth):
        for c in ast.walk(expr):
            if not isinstance(c, ast.Call):
                continue
            if isinstance(c.func, ast.Attribute) and c.func.attr in ("append", "extend") and isinstance(c.func.value, ast.Name) and len(c.args) == 1:
                a = c.args[0]
                vals = [a] if c.func.attr == "append" else (list(a.elts) if isinstance(a, (ast.List, ast.Tuple)) else None)
                if vals is not None:
                    for v in vals:
                        self.events.append(("append", c.func.value.id, self._value(v, env, arrs)))
                continue
            fn = None
            if self.resolve is not None and depth < 2 and not c.keywords and any(isinstance(a, ast.Name) and a.id in arrs for a in c.args):
                fn = self.resolve(c)
            if fn is not None and len(fn.args.args) == len(c.args):
                env2, arrs2 = {}, {}
                for p_, a_ in zip(fn.args.args, c.args):
                    if isinstance(a_, ast.Name) and a_.id in arrs:
                        arrs2[p_.arg] = arrs[a_.id]
                    else:
                        v = self._value(a_, env, arrs)
                        if isinstance(v, int):
                            env2[p_.arg] = v
                body_ = [x for x in fn.body if not (isinstance(x, ast.Expr) and isinstance(x.value, ast.Constant))]
                self.block(body_, env2, arrs2, depth + 1)
                continue
            rows = []
            for a in c.args:
                if isinstance(a, ast.Subscript) and u(a.value) in arrs:
                    sl = a.slice.elts[0] if isinstance(a.slice, ast.Tuple) else a.slice
                    rows.append((arrs[u(a.value)], self._value(sl, env, arrs) if not isinstance(sl, ast.Slice) else None))
                elif isinstance(a, ast.Name) and isinstance(env.get(a.id), tuple) and env[a.id][0] == "row":
                    rows.append((env[a.id][1], env[a.id][2]))          # a row temporary: `box = A[i]` ... f(box, B[j])
            if rows:
                self.events.append(("call", (call_name(c) or u(c.func)).split(".")[-1], tuple(rows)))

    def tri(self, t, env, arrs, depth):
        if isinstance(t, ast.BoolOp):
            vals = []
            for v in t.values:
                r = self.tri(v, env, arrs, depth)
                vals.append(r)
                if isinstance(t.op, ast.And) and r is False:
                    return False
                if isinstance(t.op, ast.Or) and r is True:
                    return True
            return None if None in vals else (all(vals) if isinstance(t.op, ast.And) else any(vals))
        if isinstance(t, ast.UnaryOp) and isinstance(t.op, ast.Not):
            r = self.tri(t.operand, env, arrs, depth)
            return None if r is None else (not r)
        if isinstance(t, ast.Compare) and len(t.ops) == 1:
            try:
                a, b = self.ieval(t.left, env, arrs), self.ieval(t.comparators[0], env, arrs)
                return {ast.Eq: a == b, ast.NotEq: a != b, ast.Lt: a < b, ast.LtE: a <= b, ast.Gt: a > b, ast.GtE: a >= b}.get(type(t.ops[0]))
            except NotEnumerable:
                pass
        self.record(t, env, arrs, depth)
        return None

    # ---------------------------------------------------------------- statements
    def block(self, stmts, env, arrs, depth=0):
        for st in stmts:
            self.budget -= 1
            if self.budget < 0:
                raise NotEnumerable("budget exhausted")
            if isinstance(st, ast.Assign):
                self.record(st.value, env, arrs, depth)
                for t in st.targets:
                    if isinstance(t, ast.Name):
                        if isinstance(st.value, ast.Name) and st.value.id in arrs:
                            arrs[t.id] = arrs[st.value.id]          # alias of an array
                            continue
                        if isinstance(st.value, ast.Subscript) and u(st.value.value) in arrs:
                            sl_ = st.value.slice.elts[0] if isinstance(st.value.slice, ast.Tuple) else st.value.slice
                            iv_ = self._value(sl_, env, arrs) if not isinstance(sl_, ast.Slice) else None
                            if isinstance(iv_, int):
                                env[t.id] = ("row", arrs[u(st.value.value)], iv_)
                                continue
                        v = self._value(st.value, env, arrs)
                        if isinstance(v, int):
                            env[t.id] = v
                        else:
                            env.pop(t.id, None)
            elif isinstance(st, ast.AugAssign):
                self.record(st.value, env, arrs, depth)
                if isinstance(st.target, ast.Name):
                    try:
                        env[st.target.id] = self.ieval(ast.BinOp(left=ast.Name(id=st.target.id, ctx=ast.Load()), op=st.op, right=st.value), env, arrs)
                    except NotEnumerable:
                        env.pop(st.target.id, None)
            elif isinstance(st, ast.For):
                it = st.iter
                if isinstance(it, ast.Call) and call_name(it) == "range" and isinstance(st.target, ast.Name) and not it.keywords:
                    try:
                        args = [self.ieval(a, env, arrs) for a in it.args]
                    except NotEnumerable:
                        raise NotEnumerable("loop bound `%s`" % u(it)[:50])
                    for v in range(*args):
                        env[st.target.id] = v
                        self.block(st.body, env, arrs, depth)
                elif isinstance(it, ast.Call) and call_name(it) == "enumerate" and len(it.args) == 1 and u(it.args[0]) in arrs and isinstance(st.target, ast.Tuple) \
                        and len(st.target.elts) == 2 and all(isinstance(x, ast.Name) for x in st.target.elts):
                    # for i, row in enumerate(A): row is A[i]
                    for v in range(self.sizes[arrs[u(it.args[0])]]):
                        env[st.target.elts[0].id] = v
                        env[st.target.elts[1].id] = ("row", arrs[u(it.args[0])], v)
                        self.block(st.body, env, arrs, depth)
                else:
                    raise NotEnumerable("loop over `%s`" % u(it)[:50])
            elif isinstance(st, ast.While):
                raise NotEnumerable("while loop")
            elif isinstance(st, ast.If):
                r = self.tri(st.test, env, arrs, depth)
                if r is not False:
                    self.block(st.body, dict(env) if r is None else env, dict(arrs) if r is None else arrs, depth)
                if r is not True:
                    self.block(st.orelse, dict(env) if r is None else env, dict(arrs) if r is None else arrs, depth)
            elif isinstance(st, (ast.Expr, ast.Return)):
                if st.value is not None:
                    self.record(st.value, env, arrs, depth)
            elif isinstance(st, ast.Assert):
                self.record(st.test, env, arrs, depth)
            elif isinstance(st, (ast.Break, ast.Continue, ast.Pass)):
                continue          # a break after a hit only shortens the scan: what could be tested has been recorded
            else:
                raise NotEnumerable("statement %s" % type(st).__name__)


def enumerate_function(idx, f, sizes):
    """events of f with its array parameters given `sizes` = {parameter name: rows}"""
    def resolve(c_):
        g_ = idx.resolve_call(f.module, c_, None)
        node_ = getattr(g_, "node", None)
        return node_ if isinstance(node_, ast.FunctionDef) and getattr(g_, "module", None) is f.module and getattr(g_, "cls", None) is None else None
    en = Enumerator(sizes, resolve)
    body = [x for x in f.node.body if not (isinstance(x, ast.Expr) and isinstance(x.value, ast.Constant))]
    en.block(body, {}, {k: k for k in sizes})
    return en.events
