"""Whole-library call graph over the Index: resolved callees (functions, constructors, self-methods, module attributes),
function values passed as arguments, and class-hierarchy-by-name dispatch for unresolved `x.m(...)` calls (every library
method named m).  `reachable(idx, roots)` is the closure used to give each property exactly the functions its entry
points can execute — so a check fires for a property only when code that property can run was changed."""
import ast

from .index import FuncInfo, ClassInfo


# drawing code (artists) is never part of a geometric answer: not traversed
NOT_TRAVERSED = ("distance3d.visualization", "distance3d.plotting", "distance3d.benchmark")


def _methods_named(idx):
    if not hasattr(idx, "_methods_named"):
        tab = {}
        for m in idx.lib_modules():
            if m.name.startswith(NOT_TRAVERSED):
                continue
            for c in m.classes.values():
                for name, f in c.methods.items():
                    tab.setdefault(name, []).append(f)
        idx._methods_named = tab
    return idx._methods_named


def callees(idx, f):
    if not hasattr(idx, "_callees"):
        idx._callees = {}
    if f.key in idx._callees:
        return idx._callees[f.key]
    out = {}
    named = _methods_named(idx)

    def add(r):
        if r.module.name.startswith(NOT_TRAVERSED):
            return
        if isinstance(r, FuncInfo):
            out[r.key] = r
        elif isinstance(r, ClassInfo):
            for mname in ("__init__", "__call__"):
                m = idx.find_method(r, mname)
                if m is not None and mname == "__init__":
                    out[m.key] = m
    for n in ast.walk(f.node):
        if isinstance(n, ast.Call):
            r = idx.resolve_call(f.module, n, f.cls)
            if r is not None:
                add(r)
            elif isinstance(n.func, ast.Attribute):
                for m in named.get(n.func.attr, ()):
                    out[m.key] = m
            elif isinstance(n.func, ast.Name):
                # calling a local variable / parameter / attribute object: objects with __call__ (support function objects)
                pass
            if isinstance(n.func, ast.Attribute) and isinstance(n.func.value, ast.Attribute) and isinstance(n.func.value.value, ast.Name) \
                    and n.func.value.value.id == "self" and r is None:
                pass
            # self._support_function(...)  -> every library __call__
            if isinstance(n.func, ast.Attribute) and isinstance(n.func.value, ast.Name) and n.func.value.id == "self" and r is None \
                    and f.cls is not None and idx.find_method(f.cls, n.func.attr) is None:
                for m in named.get("__call__", ()):
                    out[m.key] = m
            for a in list(n.args) + [k.value for k in n.keywords]:
                if isinstance(a, (ast.Name, ast.Attribute)):
                    r2 = idx.resolve_expr(f.module, a, f.cls)
                    if r2 is not None:
                        add(r2)
    # function values that escape in any other way (a dispatch table `(f, g, h)[n - 2]`, `handler = f if c else g`): address-taken functions are
    # possible callees
    local = {a.arg for a in ast.walk(f.node) if isinstance(a, ast.arg)} | {n.id for n in ast.walk(f.node) if isinstance(n, ast.Name) and isinstance(n.ctx, ast.Store)}
    for n in ast.walk(f.node):
        if isinstance(n, ast.Name) and isinstance(n.ctx, ast.Load) and n.id not in local:
            r3 = idx.resolve_expr(f.module, n, f.cls)
            if isinstance(r3, FuncInfo) and r3.key != f.key:
                add(r3)
            elif r3 is None and n.id in f.module.const_nodes and isinstance(f.module.const_nodes[n.id], (ast.Dict, ast.Tuple, ast.List)):
                # a module-level table of functions (`_SUPPORTS = {Box: box_support, ...}; _SUPPORTS[type(c)](...)`)
                for e in ast.walk(f.module.const_nodes[n.id]):
                    if isinstance(e, ast.Name) and isinstance(e.ctx, ast.Load):
                        r4 = idx.resolve_expr(f.module, e, None)
                        if isinstance(r4, FuncInfo):
                            add(r4)
    idx._callees[f.key] = out
    return out


def reachable(idx, roots):
    """closure of function keys reachable from the root FuncInfos (roots included); nested <locals> functions ride with their parent"""
    seen = {}
    todo = list(roots)
    while todo:
        f = todo.pop()
        if f is None or f.key in seen:
            continue
        seen[f.key] = f
        todo.extend(callees(idx, f).values())
    # nested functions of reachable functions
    for m in idx.lib_modules():
        for f in m.functions.values():
            if "<locals>" in f.qualname:
                parent = f.key.split(".<locals>")[0]
                if parent in seen:
                    seen[f.key] = f
    return seen


def roots(idx, *keys):
    out = []
    for k in keys:
        if "::" in k and not k.endswith(".*") and not k.endswith("::*"):
            out.append(idx.func(k))
        elif k.endswith("::*"):
            m = idx.module(k[:-3])
            out.extend(f for f in m.functions.values())
        elif k.endswith(".*"):
            ci = idx.cls(k[:-2])
            out.extend(ci.methods.values())
    return out
