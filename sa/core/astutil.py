"""Small ast helpers shared by the rules (normalisation, matching, traversal)."""
import ast

from .index import fold_constant, _NOCONST


def u(node):
    """Canonical text of a node (ast.unparse: independent of formatting / line numbers)."""
    if node is None:
        return "None"
    if isinstance(node, list):
        return "; ".join(u(n) for n in node)
    return ast.unparse(node)


def dotted(node):
    """'np.linalg.norm' for Attribute/Name chains, else None."""
    if isinstance(node, ast.Name):
        return node.id
    if isinstance(node, ast.Attribute):
        b = dotted(node.value)
        return None if b is None else b + "." + node.attr
    return None


def call_name(call):
    return dotted(call.func) if isinstance(call, ast.Call) else None


def calls(node, name=None):
    """All Call nodes under node (pre-order, source order); optionally only those whose dotted name's last
    component equals ``name``."""
    out = []
    for n in walk_ordered(node):
        if isinstance(n, ast.Call):
            if name is None:
                out.append(n)
            else:
                d = call_name(n)
                if d is not None and d.split(".")[-1] == name:
                    out.append(n)
    return out


def walk_ordered(node):
    """Pre-order walk in source order (ast.walk is breadth-first)."""
    if isinstance(node, list):
        for n in node:
            yield from walk_ordered(n)
        return
    yield node
    for ch in ast.iter_child_nodes(node):
        yield from walk_ordered(ch)


def index_elts(sub):
    """Index elements of a Subscript: a[i, j] -> [i, j]; a[i] -> [i]."""
    s = sub.slice
    if isinstance(s, ast.Tuple):
        return list(s.elts)
    return [s]


def const(node, consts=None):
    """Fold to a python constant or return None."""
    v = fold_constant(node, consts or {})
    return None if v is _NOCONST else v


def is_const(node, value, consts=None):
    v = const(node, consts)
    return v is not None and v == value and type(v) is not str


def names_in(node):
    return {n.id for n in ast.walk(node) if isinstance(n, ast.Name)}


def stores_in(node):
    """Names assigned anywhere under node (Name targets in Store context)."""
    return {n.id for n in ast.walk(node) if isinstance(n, ast.Name) and isinstance(n.ctx, ast.Store)}


_FLIP = {ast.Lt: ast.Gt, ast.Gt: ast.Lt, ast.LtE: ast.GtE, ast.GtE: ast.LtE, ast.Eq: ast.Eq, ast.NotEq: ast.NotEq}
_OPTXT = {ast.Lt: "<", ast.Gt: ">", ast.LtE: "<=", ast.GtE: ">=", ast.Eq: "==", ast.NotEq: "!=",
          ast.Is: "is", ast.IsNot: "is not", ast.In: "in", ast.NotIn: "not in"}


def compare_triples(node):
    """Compare node -> list of (optext, left_node, right_node), chained comparisons split."""
    out = []
    left = node.left
    for op, right in zip(node.ops, node.comparators):
        out.append((_OPTXT[type(op)], left, right))
        left = right
    return out


def norm_compare(op, a, b):
    """Normalise so that the operator is one of < <= == != (a > b  ==  b < a)."""
    if op == ">":
        return ("<", b, a)
    if op == ">=":
        return ("<=", b, a)
    return (op, a, b)


def conjuncts(node):
    """Flatten `a and b and c` into [a, b, c]."""
    if isinstance(node, ast.BoolOp) and isinstance(node.op, ast.And):
        out = []
        for v in node.values:
            out.extend(conjuncts(v))
        return out
    return [node]


def disjuncts(node):
    if isinstance(node, ast.BoolOp) and isinstance(node.op, ast.Or):
        out = []
        for v in node.values:
            out.extend(disjuncts(v))
        return out
    return [node]


def strip_docstring(body):
    if body and isinstance(body[0], ast.Expr) and isinstance(body[0].value, ast.Constant) and isinstance(body[0].value.value, str):
        return body[1:]
    return body


def assign_targets(st):
    """(targets list, value) of Assign / AnnAssign / AugAssign, tuple targets flattened pairwise when the
    value is a tuple of the same length."""
    if isinstance(st, ast.Assign):
        return st.targets, st.value
    if isinstance(st, ast.AnnAssign) and st.value is not None:
        return [st.target], st.value
    if isinstance(st, ast.AugAssign):
        return [st.target], st.value
    return [], None


def flat_assignments(st):
    """Yield (target_node, value_node or None) pairs; `a, b = x, y` -> (a,x),(b,y); `a, b = f()` -> (a,None),(b,None)
    with the call available via the third element."""
    if isinstance(st, ast.Assign):
        for t in st.targets:
            if isinstance(t, (ast.Tuple, ast.List)):
                if isinstance(st.value, (ast.Tuple, ast.List)) and len(st.value.elts) == len(t.elts):
                    for a, b in zip(t.elts, st.value.elts):
                        yield a, b, st.value
                else:
                    for i, a in enumerate(t.elts):
                        yield a, None, st.value
            else:
                yield t, st.value, st.value
    elif isinstance(st, ast.AnnAssign) and st.value is not None:
        yield st.target, st.value, st.value
    elif isinstance(st, ast.AugAssign):
        yield st.target, st.value, st.value


def iter_stmts(body):
    """All statements under a body, pre-order, source order (nested function/class bodies excluded)."""
    for st in body:
        yield st
        for fld in ("body", "orelse", "finalbody"):
            sub = getattr(st, fld, None)
            if sub and not isinstance(st, (ast.FunctionDef, ast.AsyncFunctionDef, ast.ClassDef)):
                yield from iter_stmts(sub)
        if isinstance(st, ast.Try):
            for h in st.handlers:
                yield from iter_stmts(h.body)


def parent_map(root):
    pm = {}
    for n in ast.walk(root):
        for ch in ast.iter_child_nodes(n):
            pm[ch] = n
    return pm


def enclosing(pm, node, types):
    n = pm.get(node)
    while n is not None:
        if isinstance(n, types):
            return n
        n = pm.get(n)
    return None


def is_neg_of(a, b):
    """True when expression a is syntactically the negation of b (-b, b * -1, np.negative(b)) or vice versa."""
    def neg_inner(x):
        if isinstance(x, ast.UnaryOp) and isinstance(x.op, ast.USub):
            return x.operand
        if isinstance(x, ast.Call) and call_name(x) in ("np.negative", "numpy.negative") and len(x.args) == 1:
            return x.args[0]
        if isinstance(x, ast.BinOp) and isinstance(x.op, ast.Mult):
            if is_const(x.right, -1) or is_const(x.right, -1.0):
                return x.left
            if is_const(x.left, -1) or is_const(x.left, -1.0):
                return x.right
        return None
    ia = neg_inner(a)
    if ia is not None and u(ia) == u(b):
        return True
    ib = neg_inner(b)
    if ib is not None and u(ib) == u(a):
        return True
    return False


def lineno(node):
    return getattr(node, "lineno", 0)


def ncmp(test):
    """Normalised single comparison: (op, left, right) with op in < <= == != (or None)."""
    if isinstance(test, ast.Compare) and len(test.ops) == 1:
        op, a, b = compare_triples(test)[0]
        return norm_compare(op, a, b)
    return None


def dot_args(node):
    """np.dot(a, b) / a.dot(b) / a @ b -> (a, b) else None."""
    if isinstance(node, ast.Call):
        cn = call_name(node) or ""
        if cn in ("np.dot", "numpy.dot") and len(node.args) == 2:
            return node.args[0], node.args[1]
        if isinstance(node.func, ast.Attribute) and node.func.attr == "dot" and len(node.args) == 1 and cn not in ("np.dot", "numpy.dot"):
            return node.func.value, node.args[0]
    if isinstance(node, ast.BinOp) and isinstance(node.op, ast.MatMult):
        return node.left, node.right
    return None


import re as _re
import copy as _copy
_CONV = _re.compile(r"(_in_|[A-Za-z0-9]2[A-Za-z]|\d$|12|21|squared|_sq)")


def stable_text(node, func_node, module_names=()):
    """ast.unparse of node with every renamable local name replaced by `_`: locals that are assigned in the function, are not
    parameters, and do not carry a naming convention (x2y, *_in_x, *1/*2/*12/*21, *squared).  Keys built from this text do not
    change when a local variable is renamed."""
    params = set()
    if func_node is not None and hasattr(func_node, "args"):
        a = func_node.args
        params = {x.arg for x in a.posonlyargs + a.args + a.kwonlyargs}
    stored = set()
    if func_node is not None:
        for n in ast.walk(func_node):
            if isinstance(n, ast.Name) and isinstance(n.ctx, ast.Store):
                stored.add(n.id)
    ren = {x for x in stored if x not in params and x not in module_names and not _CONV.search(x)}
    if not ren:
        return ast.unparse(node)
    c = _copy.deepcopy(node)
    for n in ast.walk(c):
        if isinstance(n, ast.Name) and n.id in ren:
            n.id = "_"
    return ast.unparse(c)


def canon_inline(func_node):
    """Normal form for shape comparisons: a deep copy of the function in which every local `x` whose definitions are all plain
    statements `x = e`, each immediately followed (same block) by a simple statement that reads x exactly once, and that is read
    nowhere else, is substituted into that statement.  `t = a*b; r = t + c` and `r = a*b + c` get the same normal form, so a
    rule that compares statement shapes does not depend on which intermediate results a developer chose to name."""
    import copy
    fn = copy.deepcopy(func_node)
    params = {a.arg for a in fn.args.args + fn.args.kwonlyargs + fn.args.posonlyargs}
    simple = (ast.Assign, ast.AugAssign, ast.Return, ast.Expr)
    for _ in range(8):
        loads, stores = {}, {}
        for n in ast.walk(fn):
            if isinstance(n, ast.Name):
                d = stores if isinstance(n.ctx, (ast.Store, ast.Del)) else loads
                d[n.id] = d.get(n.id, 0) + 1
        sites = {}      # name -> list of (block, index) or None when disqualified

        def scan(node):
            for field in ("body", "orelse", "finalbody"):
                blk = getattr(node, field, None)
                if not isinstance(blk, list):
                    continue
                for i, st in enumerate(blk):
                    if isinstance(st, ast.Assign) and len(st.targets) == 1 and isinstance(st.targets[0], ast.Name):
                        x = st.targets[0].id
                        nx = blk[i + 1] if i + 1 < len(blk) else None
                        ok = nx is not None and isinstance(nx, simple) and not isinstance(st.value, (ast.Name, ast.Constant)) and \
                            sum(1 for n in ast.walk(nx) if isinstance(n, ast.Name) and n.id == x and isinstance(n.ctx, ast.Load)) == 1 and \
                            not any(isinstance(n, ast.Name) and n.id == x and isinstance(n.ctx, ast.Store) for n in ast.walk(nx)) and \
                            not any(isinstance(n, ast.Name) and n.id == x for n in ast.walk(st.value))
                        if sites.get(x, []) is not None:
                            if ok:
                                sites.setdefault(x, []).append((blk, st))
                            else:
                                sites[x] = None
                    if not isinstance(st, (ast.FunctionDef, ast.ClassDef)):
                        scan(st)
        scan(fn)
        todo = {x: s for x, s in sites.items() if s and x not in params and stores.get(x) == len(s) and loads.get(x) == len(s)}
        if not todo:
            break
        # one name per round: substituted statements may be definitions of other candidates
        x = sorted(todo)[0]
        for blk, st in todo[x]:
            i = blk.index(st)
            val = st.value

            class R(ast.NodeTransformer):
                def visit_Name(self, n):
                    return copy.deepcopy(val) if (n.id == x and isinstance(n.ctx, ast.Load)) else n
            blk[i + 1] = R().visit(blk[i + 1])
            del blk[i]
    return fn


def resolved(func_node, expr, depth=3):
    """expr, or — when it is a local name with exactly one plain definition `x = e` in the function — that definition (followed
    through up to `depth` such names).  Lets a rule look at a value whether or not the developer named it."""
    while depth > 0 and isinstance(expr, ast.Name):
        defs = []
        nstores = 0
        for n in ast.walk(func_node):
            if isinstance(n, ast.Name) and n.id == expr.id and isinstance(n.ctx, ast.Store):
                nstores += 1
            if isinstance(n, ast.Assign) and len(n.targets) == 1 and isinstance(n.targets[0], ast.Name) and n.targets[0].id == expr.id:
                defs.append(n.value)
            elif isinstance(n, ast.Assign) and len(n.targets) == 1 and isinstance(n.targets[0], (ast.Tuple, ast.List)) and isinstance(n.value, (ast.Tuple, ast.List)):
                # element-wise tuple assignment  nx, ny, nz = n[0], n[1], n[2]
                for t_, v_ in assign_pairs(n):
                    if isinstance(t_, ast.Name) and t_.id == expr.id:
                        defs.append(v_)
            if isinstance(n, ast.AugAssign) and isinstance(n.target, ast.Name) and n.target.id == expr.id:
                nstores += 1
        if len(defs) != 1 or nstores != 1:
            break
        expr = defs[0]
        depth -= 1
    return expr


def sibling_verdict(rep, rule, key, where, diff, bad_msg, ok_detail, small=2):
    """Verdict of a statement-shape comparison between two copies of one algorithm.  A difference of at most `small` lines on either side
    is a local edit of one copy (reported); a larger one means that one copy was restructured (vectorised, split into helpers): the shapes
    can no longer be lined up and nothing is decided — a restructuring is not by itself a behavioural difference."""
    minus = [l for l in diff if l.startswith("-")]
    plus = [l for l in diff if l.startswith("+")]
    if not diff:
        rep.ok(rule, key, where, ok_detail)
    elif max(len(minus), len(plus)) <= small:
        rep.bad(rule, key, where, bad_msg)
    else:
        rep.unknown(rule, key, where, "one copy was restructured (%d / %d differing lines): the statement shapes cannot be lined up, nothing decided" % (len(minus), len(plus)))


def always_exits(body):
    return bool(body) and isinstance(body[-1], (ast.Continue, ast.Break, ast.Return, ast.Raise))


def atomise(test, pol):
    """split a guard into atomic (test, polarity) facts: not X | A and B (taken) | A or B (not taken)"""
    if isinstance(test, ast.UnaryOp) and isinstance(test.op, ast.Not):
        return atomise(test.operand, not pol)
    if isinstance(test, ast.BoolOp) and ((isinstance(test.op, ast.And) and pol) or (isinstance(test.op, ast.Or) and not pol)):
        out = []
        for v in test.values:
            out.extend(atomise(v, pol))
        return out
    return [(test, pol)]


def guard_chain(pm, node, stop):
    """[(test_node, polarity)] of the conditions under which ``node`` runs inside ``stop``: the enclosing if-statements and the guard
    clauses before it (`if T: ...; continue/break/return` with no else leaves `not T` for the rest of the block), split into
    atomic facts, outermost first.  Both styles of writing the same traversal give the same chain."""
    chain = []
    cur = node
    while cur is not stop and cur in pm:
        par = pm[cur]
        here = []
        for fld in ("body", "orelse"):
            blk = getattr(par, fld, None)
            if isinstance(blk, list) and cur in blk:
                for prev in blk[:blk.index(cur)]:
                    if isinstance(prev, ast.If) and not prev.orelse and always_exits(prev.body):
                        here.extend(atomise(prev.test, False))
                    elif isinstance(prev, ast.If) and prev.orelse and always_exits(prev.orelse) and not always_exits(prev.body):
                        here.extend(atomise(prev.test, True))
        if isinstance(par, ast.If):
            if cur in par.body:
                chain.append(atomise(par.test, True) + here)
            elif cur in par.orelse:
                chain.append(atomise(par.test, False) + here)
            else:
                chain.append(here)
        else:
            chain.append(here)
        cur = par
    chain.reverse()
    return [x for grp in chain for x in grp]




def resolve_atoms(func_node, atoms):
    """guard-chain atoms with named conditions opened: `worse = not (a < b); if worse: return ...` gives the atom (a < b, True) for what follows"""
    out = []
    for t, pol in atoms:
        r = resolved(func_node, t) if isinstance(t, ast.Name) else t
        if r is not t and isinstance(r, (ast.Compare, ast.BoolOp, ast.UnaryOp)):
            out.extend(resolve_atoms(func_node, atomise(r, pol)))
        else:
            out.append((t, pol))
    return out


def deref_access_temps(func_node):
    """Normal form for rules that read array accesses: a deep copy of the function in which every local bound ONCE to a pure access expression
    (`t = A[i, K]`, `row = A[i]`, `n = obj.attr`) is replaced, in its later uses, by that expression — provided neither the array nor anything the
    index is built from is stored to between the definition and the use.  `left = nodes[i, LEFT]; aabbs[left]` reads as `aabbs[nodes[i, LEFT]]`."""
    import copy
    fn = copy.deepcopy(func_node)
    params = {a.arg for a in fn.args.args + fn.args.kwonlyargs + fn.args.posonlyargs}
    stores = {}
    for n in ast.walk(fn):
        if isinstance(n, ast.Name) and isinstance(n.ctx, (ast.Store, ast.Del)):
            stores.setdefault(n.id, []).append(n.lineno)
        elif isinstance(n, (ast.Subscript, ast.Attribute)) and isinstance(n.ctx, (ast.Store, ast.Del)):
            b = n
            while isinstance(b, (ast.Subscript, ast.Attribute)):
                b = b.value
            if isinstance(b, ast.Name):
                stores.setdefault(b.id + "[]", []).append(n.lineno)
        elif isinstance(n, ast.AugAssign):
            b = n.target
            while isinstance(b, (ast.Subscript, ast.Attribute)):
                b = b.value
            if isinstance(b, ast.Name):
                stores.setdefault(b.id if isinstance(n.target, ast.Name) else b.id + "[]", []).append(n.lineno)

    def pure_access(e):
        if isinstance(e, ast.Subscript):
            return pure_access(e.value) and all(isinstance(x, (ast.Name, ast.Constant, ast.Tuple, ast.Attribute, ast.Load, ast.BinOp, ast.Add, ast.Sub, ast.Mult, ast.UnaryOp, ast.USub, ast.Subscript))
                                                for x in ast.walk(e.slice))
        if isinstance(e, ast.Attribute):
            return pure_access(e.value)
        return isinstance(e, ast.Name)
    defs = {}
    for st in ast.walk(fn):
        if isinstance(st, ast.Assign) and len(st.targets) == 1 and isinstance(st.targets[0], ast.Name) and isinstance(st.value, (ast.Subscript, ast.Attribute)) \
                and pure_access(st.value) and st.targets[0].id not in params and len(stores.get(st.targets[0].id, [])) == 1:
            defs[st.targets[0].id] = st

    def safe(st, use_line):
        names = {x.id for x in ast.walk(st.value) if isinstance(x, ast.Name)}
        for nm in names:
            if any(st.lineno < ln < use_line for ln in stores.get(nm, [])):
                return False          # a store on the use's own line is the statement that reads the value first (x = f(x))
            if any(st.lineno < ln < use_line for ln in stores.get(nm + "[]", [])):
                return False
        return True

    # all or nothing per temporary: a snapshot that is still used after the cell it came from was overwritten keeps its name everywhere
    for nm in list(defs):
        uses = [n for n in ast.walk(fn) if isinstance(n, ast.Name) and n.id == nm and isinstance(n.ctx, ast.Load)]
        if any(n.lineno <= defs[nm].lineno or not safe(defs[nm], n.lineno) for n in uses):
            del defs[nm]

    class R(ast.NodeTransformer):
        def visit_Name(self, n):
            if isinstance(n.ctx, ast.Load) and n.id in defs and n.lineno > defs[n.id].lineno:
                return ast.copy_location(copy.deepcopy(defs[n.id].value), n)
            return n
    for _ in range(3):
        R().visit(fn)
    ast.fix_missing_locations(fn)
    return fn


def _prefix_rows(v, k):
    """[X[..., 0], ..., X[..., k-1]] when v is X[..., :k] (a constant prefix slice as the LAST index), else None"""
    import copy as _copy
    if not isinstance(v, ast.Subscript):
        return None
    idxs = list(v.slice.elts) if isinstance(v.slice, ast.Tuple) else [v.slice]
    last = idxs[-1]
    if not (isinstance(last, ast.Slice) and last.lower is None and last.step is None and isinstance(last.upper, ast.Constant) and last.upper.value == k):
        return None
    if any(isinstance(x, ast.Slice) for x in idxs[:-1]):
        return None
    out = []
    for j in range(k):
        elts = [_copy.deepcopy(x) for x in idxs[:-1]] + [ast.Constant(value=j)]
        sl = elts[0] if len(elts) == 1 else ast.Tuple(elts=elts, ctx=ast.Load())
        out.append(ast.copy_location(ast.Subscript(value=_copy.deepcopy(v.value), slice=sl, ctx=ast.Load()), v))
    for n in out:
        ast.fix_missing_locations(n)
    return out


def assign_pairs(st):
    """(target, value) pairs of an assignment statement; a tuple assignment `a, b = x, y` of equal arity is read element-wise
    (all values are evaluated before any store, so the pairs are simultaneous)"""
    if not isinstance(st, ast.Assign):
        return []
    out = []
    for t in st.targets:
        if isinstance(t, (ast.Tuple, ast.List)) and isinstance(st.value, (ast.Tuple, ast.List)) and len(t.elts) == len(st.value.elts) \
                and not any(isinstance(e, ast.Starred) for e in list(t.elts) + list(st.value.elts)):
            out.extend(zip(t.elts, st.value.elts))
        elif isinstance(t, (ast.Tuple, ast.List)) and _prefix_rows(st.value, len(t.elts)) is not None \
                and not any(isinstance(e, ast.Starred) for e in t.elts):
            # `a, b, c = X[i, :3]` / `a, b, c = X[:3]`: unpacking iterates the first axis of the prefix slice, a = X[i, 0], b = X[i, 1], c = X[i, 2]
            out.extend(zip(t.elts, _prefix_rows(st.value, len(t.elts))))
        else:
            out.append((t, st.value))
    return out


def eval_pure(node, env):
    """value of an integer / boolean expression over names bound in env (constant evaluation of arithmetic, bit operations, comparisons, and / or / not,
    conditional expressions); None when something else occurs.  No repository code is executed."""
    if isinstance(node, ast.Constant) and isinstance(node.value, (int, bool)):
        return node.value
    if isinstance(node, ast.Name):
        return env.get(node.id)
    if isinstance(node, ast.BinOp):
        a, b = eval_pure(node.left, env), eval_pure(node.right, env)
        if a is None or b is None:
            return None
        try:
            return {ast.Add: lambda: a + b, ast.Sub: lambda: a - b, ast.BitAnd: lambda: a & b, ast.BitOr: lambda: a | b, ast.BitXor: lambda: a ^ b,
                    ast.LShift: lambda: a << b, ast.RShift: lambda: a >> b, ast.Mult: lambda: a * b, ast.FloorDiv: lambda: a // b, ast.Mod: lambda: a % b}[type(node.op)]()
        except (KeyError, ValueError, ZeroDivisionError):
            return None
    if isinstance(node, ast.UnaryOp):
        v = eval_pure(node.operand, env)
        if v is None:
            return None
        return {ast.Invert: lambda: ~v, ast.Not: lambda: not v, ast.USub: lambda: -v, ast.UAdd: lambda: +v}[type(node.op)]()
    if isinstance(node, ast.Compare):
        left = eval_pure(node.left, env)
        for op, c in zip(node.ops, node.comparators):
            right = eval_pure(c, env)
            if left is None or right is None:
                return None
            f = {ast.Eq: lambda x, y: x == y, ast.NotEq: lambda x, y: x != y, ast.Lt: lambda x, y: x < y, ast.LtE: lambda x, y: x <= y,
                 ast.Gt: lambda x, y: x > y, ast.GtE: lambda x, y: x >= y}.get(type(op))
            if f is None:
                return None
            if not f(left, right):
                return False
            left = right
        return True
    if isinstance(node, ast.BoolOp):
        vals = [eval_pure(v, env) for v in node.values]
        if any(v is None for v in vals):
            return None
        return all(vals) if isinstance(node.op, ast.And) else any(vals)
    if isinstance(node, ast.IfExp):
        t = eval_pure(node.test, env)
        return None if t is None else eval_pure(node.body if t else node.orelse, env)
    return None


def inline_temps_in(func_node, expr, depth=5):
    """expr with every local name that has exactly ONE definition in the function (plain or as an element of a tuple assignment, never re-stored or
    augmented) replaced by that definition, recursively: the value as one expression, whether or not the developer named its parts"""
    import copy as _copy
    defs, nstores = {}, {}
    for n in ast.walk(func_node):
        if isinstance(n, ast.Name) and isinstance(n.ctx, (ast.Store, ast.Del)):
            nstores[n.id] = nstores.get(n.id, 0) + 1
        if isinstance(n, ast.AugAssign) and isinstance(n.target, ast.Name):
            nstores[n.target.id] = nstores.get(n.target.id, 0) + 1
        if isinstance(n, ast.Assign):
            for t_, v_ in assign_pairs(n):
                if isinstance(t_, ast.Name):
                    defs.setdefault(t_.id, []).append(v_)
    params = {a.arg for a in func_node.args.args} if isinstance(func_node, ast.FunctionDef) else set()
    single = {k: v[0] for k, v in defs.items() if len(v) == 1 and nstores.get(k) == 1 and k not in params}

    class T(ast.NodeTransformer):
        def __init__(self, d):
            self.d = d

        def visit_Name(self, n):
            if isinstance(n.ctx, ast.Load) and n.id in single and self.d > 0:
                return T(self.d - 1).visit(_copy.deepcopy(single[n.id]))
            return n
    return T(depth).visit(_copy.deepcopy(expr))
