"""Source index of the distance3d package: ast only, nothing is imported or executed.

Parses every ``*.py`` below ``<root>/distance3d`` (tests excluded from rule scopes but parsed so that
counts are visible), builds module / class / function tables, resolves package-internal imports,
folds module-level constants and extracts numba decorators (eager signatures included).
"""
import ast
import os
import re
import hashlib

PKG = "distance3d"


class AnalysisError(Exception):
    """The analysis could not run as designed (vanished anchor, unparsable file ...) -> exit 2."""


class FuncInfo:
    __slots__ = ("module", "qualname", "name", "node", "cls", "njit", "eager", "decorators")

    def __init__(self, module, qualname, node, cls):
        self.module = module
        self.qualname = qualname
        self.name = node.name
        self.node = node
        self.cls = cls
        self.njit, self.eager = _parse_numba_decorators(node)
        self.decorators = [ast.unparse(d) for d in node.decorator_list]

    @property
    def key(self):
        return "%s::%s" % (self.module.name, self.qualname)

    @property
    def where(self):
        return "%s:%d" % (self.module.relpath, self.node.lineno)

    def params(self):
        a = self.node.args
        return [x.arg for x in a.posonlyargs + a.args + a.kwonlyargs]

    def __repr__(self):
        return "<Func %s>" % self.key


class ClassInfo:
    __slots__ = ("module", "name", "node", "bases", "methods")

    def __init__(self, module, node):
        self.module = module
        self.name = node.name
        self.node = node
        self.bases = [ast.unparse(b) for b in node.bases]
        self.methods = {}

    @property
    def key(self):
        return "%s::%s" % (self.module.name, self.name)

    def __repr__(self):
        return "<Class %s>" % self.key


class _CanonIf(ast.NodeTransformer):
    """Canonical form of two-armed conditionals: `if not X: B else: A` is analysed as `if X: A else: B` (exactly the same
    behaviour), so that no rule depends on which arm a developer happened to write first.  Nodes keep their positions."""

    def visit_If(self, node):
        self.generic_visit(node)
        return self._polarity(node)

    @staticmethod
    def _polarity(node):
        while node.orelse and isinstance(node.test, ast.UnaryOp) and isinstance(node.test.op, ast.Not):
            node.test, node.body, node.orelse = node.test.operand, node.orelse, node.body
        # `a != b` is exactly `not (a == b)` (also for NaN), `a is not b` exactly `not (a is b)`: the two-armed form is analysed with the positive test
        if node.orelse and isinstance(node.test, ast.Compare) and len(node.test.ops) == 1 and isinstance(node.test.ops[0], (ast.NotEq, ast.IsNot)):
            pos = ast.Eq() if isinstance(node.test.ops[0], ast.NotEq) else ast.Is()
            node.test = ast.copy_location(ast.Compare(left=node.test.left, ops=[pos], comparators=node.test.comparators), node.test)
            node.body, node.orelse = node.orelse, node.body
        return node

    def _loop(self, node):
        """Guard clauses inside a loop body are analysed in their nested form:  `if c: S...; continue` followed by the rest R of the loop
        body is `if c: S... else: R` (a `continue` skips exactly R).  Both styles of writing a loop body get one shape."""
        self.generic_visit(node)
        body = node.body
        i = len(body) - 1
        while i >= 0:
            st = body[i]
            if isinstance(st, ast.If) and not st.orelse and st.body and isinstance(st.body[-1], ast.Continue) and i < len(body) - 1:
                rest = body[i + 1:]
                s_ = st.body[:-1]
                if s_:
                    new = ast.copy_location(ast.If(test=st.test, body=s_, orelse=rest), st)
                    while isinstance(new.test, ast.UnaryOp) and isinstance(new.test.op, ast.Not):      # canonical polarity of the two-armed form
                        new.test, new.body, new.orelse = new.test.operand, new.orelse, new.body
                else:
                    t = st.test
                    neg = t.operand if (isinstance(t, ast.UnaryOp) and isinstance(t.op, ast.Not)) else ast.copy_location(ast.UnaryOp(op=ast.Not(), operand=t), t)
                    new = ast.copy_location(ast.If(test=neg, body=rest, orelse=[]), st)
                body[i:] = [new]
            i -= 1
        return node

    visit_For = _loop
    visit_While = _loop

    def visit_IfExp(self, node):
        self.generic_visit(node)
        while isinstance(node.test, ast.UnaryOp) and isinstance(node.test.op, ast.Not):
            node.test, node.body, node.orelse = node.test.operand, node.orelse, node.body
        return node

    # A conditional expression that IS the value of a statement is analysed in statement form:
    #     x = A if c else B      ->   if c: x = A   else: x = B          (also `return`, and `x op= ...` for a plain target and a call-free test:
    #     the target's container / index are evaluated before the test in one form and after it in the other, which only a test with effects could observe)
    def _split(self, st, simple_target=True):
        v = st.value
        if not isinstance(v, ast.IfExp) or not simple_target:
            return st
        import copy as _copy
        a, b = _copy.copy(st), _copy.copy(st)
        a.value, b.value = v.body, v.orelse
        if isinstance(st, ast.Assign):
            b.targets = [_copy.deepcopy(t) for t in st.targets]
        elif isinstance(st, ast.AugAssign):
            b.target = _copy.deepcopy(st.target)
        new = ast.copy_location(ast.If(test=v.test, body=[a], orelse=[b]), st)
        new.body = [self._split(a, simple_target)]
        new.orelse = [self._split(b, simple_target)]
        return self._polarity(new)          # the statement form gets the polarity every written-out two-armed statement gets

    def visit_Assign(self, st):
        self.generic_visit(st)
        return self._split(st)

    def visit_Return(self, st):
        self.generic_visit(st)
        return self._split(st) if st.value is not None else st

    def visit_AugAssign(self, st):
        self.generic_visit(st)
        pure = isinstance(st.value, ast.IfExp) and not any(isinstance(n, ast.Call) for n in ast.walk(st.value.test)) \
            and not any(isinstance(n, ast.Call) for n in ast.walk(st.target))
        return self._split(st, pure)


def _canon_views(tree):
    """Row aliases are analysed in their direct form:  `row = A[i]` ... `row[k]`  is  `A[i, k]`  (basic indexing with an integer-like index
    gives a view of the same memory, so both spellings read and write the same cells).  Only subscripted uses of a local that is bound exactly
    once are rewritten, and only while nothing the index is built from has been assigned in between; the alias statement itself stays (the
    name may also be passed on as a whole)."""
    import copy

    import re as _re
    INTNAME = _re.compile(r"(^|_)(idx|index|i|j|k|n|i0|i1|i2)$|^n_|_idx$|_index$|^idx|^index")

    def intlike(e, ints):
        """evidently a scalar integer: only then is A[e] a view of row e (an integer ARRAY would make it a copy with other semantics)"""
        if isinstance(e, ast.Tuple):
            return all(intlike(x, ints) for x in e.elts)
        if isinstance(e, ast.Constant):
            return isinstance(e.value, int) and not isinstance(e.value, bool)
        if isinstance(e, ast.Name):
            return e.id in ints or bool(INTNAME.search(e.id))
        if isinstance(e, ast.Attribute):
            return bool(INTNAME.search(e.attr))
        if isinstance(e, ast.BinOp) and isinstance(e.op, (ast.Add, ast.Sub, ast.Mult, ast.FloorDiv, ast.Mod)):
            return intlike(e.left, ints) and intlike(e.right, ints)
        return False

    for fn in ast.walk(tree):
        if not isinstance(fn, ast.FunctionDef):
            continue
        ints = set()
        for n in ast.walk(fn):
            if isinstance(n, ast.For) and isinstance(n.target, ast.Name) and isinstance(n.iter, ast.Call) and ast.unparse(n.iter.func) in ("range", "numba.prange", "prange"):
                ints.add(n.target.id)
            elif isinstance(n, ast.Assign) and len(n.targets) == 1 and isinstance(n.targets[0], ast.Name) and isinstance(n.value, ast.Constant) \
                    and isinstance(n.value.value, int) and not isinstance(n.value.value, bool):
                ints.add(n.targets[0].id)
        params = {a.arg for a in fn.args.args + fn.args.kwonlyargs + fn.args.posonlyargs}
        stores = {}
        for n in ast.walk(fn):
            if isinstance(n, ast.Name) and isinstance(n.ctx, (ast.Store, ast.Del)):
                stores.setdefault(n.id, []).append(n.lineno)
            elif isinstance(n, ast.Attribute) and isinstance(n.ctx, (ast.Store, ast.Del)):
                stores.setdefault(ast.unparse(n), []).append(n.lineno)
            elif isinstance(n, ast.AugAssign):
                stores.setdefault(ast.unparse(n.target), []).append(n.lineno)
        aliases = {}
        for st in ast.walk(fn):
            prefix = isinstance(st, ast.Assign) and isinstance(st.value, ast.Subscript) and isinstance(st.value.slice, ast.Slice) and st.value.slice.lower is None \
                and st.value.slice.step is None and st.value.slice.upper is not None and intlike(st.value.slice.upper, ints)
            if isinstance(st, ast.Assign) and len(st.targets) == 1 and isinstance(st.targets[0], ast.Name) and isinstance(st.value, ast.Subscript) \
                    and isinstance(st.value.value, (ast.Name, ast.Attribute)) and (intlike(st.value.slice, ints) or prefix):
                v = st.targets[0].id
                if v in params or len(stores.get(v, [])) != 1:
                    continue
                aliases[v] = st
        # attribute aliases:  w = self.attr  (w bound once, self.attr never re-bound in this function): w and self.attr are the same object throughout,
        # so every later use of w is analysed as self.attr (stores through w[k] are stores into self.attr[k])
        attr_alias = {}
        for st in ast.walk(fn):
            if isinstance(st, ast.Assign) and len(st.targets) == 1 and isinstance(st.targets[0], ast.Name) and isinstance(st.value, ast.Attribute) \
                    and isinstance(st.value.value, ast.Name) and st.value.value.id == "self":
                v = st.targets[0].id
                if v in params or len(stores.get(v, [])) != 1 or stores.get(ast.unparse(st.value)):
                    continue
                attr_alias[v] = st
        if attr_alias:
            class A(ast.NodeTransformer):
                def visit_Name(self, n):
                    if isinstance(n.ctx, ast.Load) and n.id in attr_alias and n.lineno > attr_alias[n.id].lineno:
                        return ast.copy_location(copy.deepcopy(attr_alias[n.id].value), n)
                    return n
            A().visit(fn)
            ast.fix_missing_locations(fn)
        if not aliases:
            continue
        # never inside loops whose body lies before the alias (stale view) - keep it simple: uses must come after the definition
        class R(ast.NodeTransformer):
            def visit_Subscript(self, n):
                self.generic_visit(n)
                if isinstance(n.value, ast.Name) and n.value.id in aliases:
                    st = aliases[n.value.id]
                    if n.lineno <= st.lineno:
                        return n
                    idx_names = {ast.unparse(x) for x in ast.walk(st.value.slice) if isinstance(x, (ast.Name, ast.Attribute))}
                    base = ast.unparse(st.value.value)
                    for nm in idx_names | {base}:
                        if any(st.lineno < ln < n.lineno for ln in stores.get(nm, [])):
                            return n          # (a store on the use's own line happens after the right-hand side was read)
                    first = list(st.value.slice.elts) if isinstance(st.value.slice, ast.Tuple) else [st.value.slice]
                    second = list(n.slice.elts) if isinstance(n.slice, ast.Tuple) else [n.slice]
                    if isinstance(st.value.slice, ast.Slice):
                        # prefix alias  v = A[:n]:  only  v[:, ...]  (all rows of the prefix) is rewritten, to  A[:n, ...]
                        s0 = second[0]
                        if not (isinstance(s0, ast.Slice) and s0.lower is None and s0.upper is None and s0.step is None and len(second) >= 2):
                            return n
                        second = second[1:]
                    new = ast.Subscript(value=copy.deepcopy(st.value.value), slice=ast.Tuple(elts=[copy.deepcopy(x) for x in first] + second, ctx=ast.Load()), ctx=n.ctx)
                    return ast.copy_location(new, n)
                return n
        R().visit(fn)
        ast.fix_missing_locations(fn)


class ModuleInfo:
    def __init__(self, name, path, relpath, source):
        self.name = name
        self.path = path
        self.relpath = relpath
        self.source = source
        self.digest = hashlib.sha256(source.encode()).hexdigest()[:16]
        try:
            self.tree = ast.parse(source, filename=path)
        except SyntaxError as e:  # pragma: no cover
            raise AnalysisError("cannot parse %s: %s" % (relpath, e))
        _CanonIf().visit(self.tree)
        _canon_views(self.tree)
        self.functions = {}   # qualname -> FuncInfo (incl. methods "Class.meth", nested "f.<locals>.g")
        self.classes = {}     # name -> ClassInfo
        self.constants = {}   # module-level NAME -> python constant (folded)
        self.const_nodes = {}  # module-level NAME -> ast value node (every single-target assignment)
        self.imports = {}     # local name -> (module name, attr or None)
        self.all = None       # __all__ list if present
        self.is_test = "/test/" in ("/" + relpath) or relpath.startswith("test/")
        self._collect()

    def _collect(self):
        pkgparts = self.name.split(".")
        is_pkg = self.path.endswith("__init__.py")
        for st in self.tree.body:
            if isinstance(st, (ast.FunctionDef, ast.AsyncFunctionDef)):
                self._add_func(st, None, st.name)
            elif isinstance(st, ast.ClassDef):
                ci = ClassInfo(self, st)
                self.classes[st.name] = ci
                for sub in st.body:
                    if isinstance(sub, (ast.FunctionDef, ast.AsyncFunctionDef)):
                        fi = self._add_func(sub, ci, "%s.%s" % (st.name, sub.name))
                        ci.methods[sub.name] = fi
            elif isinstance(st, ast.Assign) and len(st.targets) == 1 and isinstance(st.targets[0], ast.Name):
                name = st.targets[0].id
                self.const_nodes[name] = st.value
                if name == "__all__":
                    try:
                        self.all = list(ast.literal_eval(st.value))
                    except Exception:
                        self.all = None
            elif isinstance(st, ast.ImportFrom):
                base = self._resolve_from(st, pkgparts, is_pkg)
                for al in st.names:
                    local = al.asname or al.name
                    self.imports[local] = (base, al.name)
            elif isinstance(st, ast.Import):
                for al in st.names:
                    local = al.asname or al.name.split(".")[0]
                    self.imports[local] = (al.name if al.asname else al.name.split(".")[0], None)
        # fold constants (ints / floats / simple arithmetic on earlier constants)
        for name, node in self.const_nodes.items():
            v = fold_constant(node, self.constants)
            if v is not _NOCONST:
                self.constants[name] = v

    def _resolve_from(self, st, pkgparts, is_pkg):
        if st.level == 0:
            return st.module or ""
        base = pkgparts if is_pkg else pkgparts[:-1]
        if st.level > 1:
            base = base[: len(base) - (st.level - 1)]
        if st.module:
            base = base + st.module.split(".")
        return ".".join(base)

    def _add_func(self, node, cls, qualname):
        fi = FuncInfo(self, qualname, node, cls)
        self.functions[qualname] = fi
        for sub in ast.walk(node):
            if sub is not node and isinstance(sub, (ast.FunctionDef, ast.AsyncFunctionDef)):
                q = "%s.<locals>.%s" % (qualname, sub.name)
                if q not in self.functions:
                    self.functions[q] = FuncInfo(self, q, sub, cls)
        return fi


_NOCONST = object()


def fold_constant(node, env):
    """Fold an expression made of numeric literals, names bound in env, unary/binary arithmetic."""
    if isinstance(node, ast.Constant) and isinstance(node.value, (int, float, bool, str)) and not isinstance(node.value, complex):
        return node.value
    if isinstance(node, ast.Name) and node.id in env:
        return env[node.id]
    if isinstance(node, ast.UnaryOp):
        v = fold_constant(node.operand, env)
        if v is _NOCONST or isinstance(v, str):
            return _NOCONST
        if isinstance(node.op, ast.USub):
            return -v
        if isinstance(node.op, ast.UAdd):
            return +v
        if isinstance(node.op, ast.Invert) and isinstance(v, int):
            return ~v
        return _NOCONST
    if isinstance(node, ast.BinOp):
        a = fold_constant(node.left, env)
        b = fold_constant(node.right, env)
        if a is _NOCONST or b is _NOCONST or isinstance(a, str) or isinstance(b, str):
            return _NOCONST
        try:
            if isinstance(node.op, ast.Add):
                return a + b
            if isinstance(node.op, ast.Sub):
                return a - b
            if isinstance(node.op, ast.Mult):
                return a * b
            if isinstance(node.op, ast.Div):
                return a / b
            if isinstance(node.op, ast.FloorDiv):
                return a // b
            if isinstance(node.op, ast.Pow):
                return a ** b
            if isinstance(node.op, ast.LShift):
                return a << b
            if isinstance(node.op, ast.RShift):
                return a >> b
            if isinstance(node.op, ast.BitOr):
                return a | b
            if isinstance(node.op, ast.BitAnd):
                return a & b
            if isinstance(node.op, ast.BitXor):
                return a ^ b
        except Exception:
            return _NOCONST
    return _NOCONST


_SIG_ARR = re.compile(r"^(?P<dt>[a-z]+[0-9]*)\[(?P<dims>[^\]]*)\]$")


def parse_numba_type(txt):
    """'float64[:, ::1]' -> ('float64', 2, 'C'); 'float64[:]' -> ('float64', 1, 'A'); 'float64' -> ('float64', 0, None)."""
    txt = txt.strip()
    mo = re.match(r"^(?:numba\.)?(?:types\.)?[Oo]ptional\((.*)\)$", txt)
    if mo:
        txt = mo.group(1).strip()
    m = _SIG_ARR.match(txt)
    if not m:
        return (txt, 0, None)
    dims = [d.strip() for d in m.group("dims").split(",")]
    ndim = len(dims)
    if dims[-1] == "::1":
        layout = "C"
    elif dims[0] == "::1" and ndim > 1:
        layout = "F"
    else:
        layout = "A"
    return (m.group("dt"), ndim, layout)


def split_top(txt, sep=","):
    out, depth, cur = [], 0, ""
    for ch in txt:
        if ch in "([":
            depth += 1
        elif ch in ")]":
            depth -= 1
        if ch == sep and depth == 0:
            out.append(cur)
            cur = ""
        else:
            cur += ch
    if cur.strip():
        out.append(cur)
    return [x.strip() for x in out]


def parse_signature_string(s):
    """'float64[::1](float64[::1], float64[:, ::1])' -> (ret, [args]) or None for a type only."""
    s = s.strip()
    # find the top-level '(' that starts the argument list: last ')' closes it
    if not s.endswith(")"):
        return None
    depth = 0
    for i in range(len(s) - 1, -1, -1):
        ch = s[i]
        if ch == ")":
            depth += 1
        elif ch == "(":
            depth -= 1
            if depth == 0:
                ret = s[:i].strip()
                args = split_top(s[i + 1:-1])
                return (ret, [parse_numba_type(a) for a in args])
    return None


def _parse_numba_decorators(node):
    """-> (is_njit, eager) where eager is None or a list of (ret_text, [ (dtype, ndim, layout) ... ])."""
    njit = False
    eager = None
    for d in node.decorator_list:
        target = d.func if isinstance(d, ast.Call) else d
        txt = ast.unparse(target)
        if txt in ("numba.njit", "njit", "numba.jit", "jit", "nb.njit"):
            njit = True
            if isinstance(d, ast.Call) and d.args:
                sigs = []
                a0 = d.args[0]
                elts = a0.elts if isinstance(a0, (ast.List, ast.Tuple)) else [a0]
                for e in elts:
                    if isinstance(e, ast.Constant) and isinstance(e.value, str):
                        ps = parse_signature_string(e.value)
                        if ps:
                            sigs.append(ps)
                    else:
                        # numba.float64[::1](numba.float64[::1]) style
                        try:
                            t = ast.unparse(e).replace("numba.", "").replace("nb.", "")
                            ps = parse_signature_string(t)
                            if ps:
                                sigs.append(ps)
                        except Exception:
                            pass
                if sigs:
                    eager = sigs
    return njit, eager


class Index:
    def __init__(self, root, overlay=None):
        """overlay: {relpath: source text} replaces files in memory (used by the self-test's mutants)."""
        overlay = overlay or {}
        self.root = os.path.abspath(root)
        pkgdir = os.path.join(self.root, PKG)
        if not os.path.isdir(pkgdir):
            raise AnalysisError("package directory %s not found" % pkgdir)
        self.modules = {}
        for dp, dns, fns in os.walk(pkgdir):
            dns[:] = sorted(d for d in dns if d != "__pycache__")
            for fn in sorted(fns):
                if not fn.endswith(".py"):
                    continue
                path = os.path.join(dp, fn)
                rel = os.path.relpath(path, self.root)
                parts = rel[:-3].split(os.sep)
                if parts[-1] == "__init__":
                    parts = parts[:-1]
                name = ".".join(parts)
                if rel in overlay:
                    src = overlay[rel]
                else:
                    with open(path, encoding="utf-8") as f:
                        src = f.read()
                self.modules[name] = ModuleInfo(name, path, rel, src)

    # ------------------------------------------------------------------ lookups
    def module(self, name):
        if name not in self.modules:
            raise AnalysisError("anchor module %s vanished" % name)
        return self.modules[name]

    def func(self, key):
        """key 'distance3d.aabb_tree::insert_leaf' -> FuncInfo (AnalysisError when missing)."""
        mod, q = key.split("::")
        m = self.module(mod)
        if q not in m.functions:
            e = AnalysisError("anchor function %s vanished" % key)
            e.fatal = True
            raise e
        return m.functions[q]

    def maybe_func(self, key):
        mod, q = key.split("::")
        m = self.modules.get(mod)
        return m.functions.get(q) if m else None

    def cls(self, key):
        mod, q = key.split("::")
        m = self.module(mod)
        if q not in m.classes:
            raise AnalysisError("anchor class %s vanished" % key)
        return m.classes[q]

    def lib_modules(self):
        return [m for m in self.modules.values() if not m.is_test]

    def all_functions(self, include_tests=False):
        for m in self.modules.values():
            if m.is_test and not include_tests:
                continue
            for f in m.functions.values():
                yield f

    def resolve_name(self, module, name, _depth=0):
        """Resolve a bare name used in ``module`` to ('func', FuncInfo) | ('class', ClassInfo) |
        ('const', value) | ('module', ModuleInfo) | None, following package-internal imports
        (including re-exports through __init__)."""
        if _depth > 6:
            return None
        if name in module.functions and "." not in name:
            return ("func", module.functions[name])
        if name in module.classes:
            return ("class", module.classes[name])
        if name in module.constants:
            return ("const", module.constants[name])
        if name in module.const_nodes:
            return ("constnode", (module, module.const_nodes[name]))
        if name in module.imports:
            mod, attr = module.imports[name]
            if attr is None:
                m = self.modules.get(mod)
                return ("module", m) if m else ("extmodule", mod)
            full = "%s.%s" % (mod, attr)
            if full in self.modules:
                return ("module", self.modules[full])
            m = self.modules.get(mod)
            if m is None:
                return ("ext", full)
            return self.resolve_name(m, attr, _depth + 1)
        return None

    def resolve_call(self, module, call, cls=None):
        """Resolve the callee of an ast.Call: FuncInfo / ClassInfo or None."""
        return self.resolve_expr(module, call.func, cls)

    def resolve_expr(self, module, f, cls=None):
        if isinstance(f, ast.Name):
            r = self.resolve_name(module, f.id)
            if r and r[0] in ("func", "class"):
                return r[1]
            return None
        if isinstance(f, ast.Attribute):
            # self.method
            if isinstance(f.value, ast.Name) and f.value.id == "self" and cls is not None:
                m = self.find_method(cls, f.attr)
                if m:
                    return m
                return None
            # module.attr chains
            base = self._resolve_module_chain(module, f.value)
            if base is not None:
                r = self.resolve_name(base, f.attr)
                if r and r[0] in ("func", "class"):
                    return r[1]
            return None
        return None

    def _resolve_module_chain(self, module, node):
        if isinstance(node, ast.Name):
            r = self.resolve_name(module, node.id)
            if r and r[0] == "module":
                return r[1]
            return None
        if isinstance(node, ast.Attribute):
            b = self._resolve_module_chain(module, node.value)
            if b is None:
                return None
            full = "%s.%s" % (b.name, node.attr)
            if full in self.modules:
                return self.modules[full]
            r = self.resolve_name(b, node.attr)
            if r and r[0] == "module":
                return r[1]
        return None

    # ------------------------------------------------------------------ classes
    def base_classes(self, ci):
        out = []
        for b in ci.node.bases:
            r = self.resolve_expr(ci.module, b)
            if isinstance(r, ClassInfo):
                out.append(r)
        return out

    def mro(self, ci):
        seen, order, todo = set(), [], [ci]
        while todo:
            c = todo.pop(0)
            if c.key in seen:
                continue
            seen.add(c.key)
            order.append(c)
            todo.extend(self.base_classes(c))
        return order

    def find_method(self, ci, name):
        for c in self.mro(ci):
            if name in c.methods:
                return c.methods[name]
        return None

    def subclasses(self, base_key):
        out = []
        for m in self.lib_modules():
            for c in m.classes.values():
                if any(b.key == base_key for b in self.mro(c)[1:]):
                    out.append(c)
        return out

    def digest(self, modnames=None):
        h = hashlib.sha256()
        for n in sorted(modnames or self.modules):
            if n in self.modules:
                h.update(n.encode())
                h.update(self.modules[n].digest.encode())
        return h.hexdigest()[:16]


# ---------------------------------------------------------------------- numpydoc
_DOC_PARAM = re.compile(r"^\s*(\w+)\s*:\s*(.+?)\s*$")


def numpydoc_params(func_node, section="Parameters"):
    """Return {name: type text} of a numpydoc section (Parameters / Returns)."""
    doc = ast.get_docstring(func_node) or ""
    lines = doc.splitlines()
    out = {}
    order = []
    i = 0
    while i < len(lines):
        if lines[i].strip() == section and i + 1 < len(lines) and set(lines[i + 1].strip()) == {"-"}:
            i += 2
            while i < len(lines):
                ln = lines[i]
                if i + 1 < len(lines) and lines[i + 1].strip() and set(lines[i + 1].strip()) == {"-"}:
                    break
                if ln and not ln.startswith("    ") and not ln.startswith("\t"):
                    m = _DOC_PARAM.match(ln)
                    if m:
                        out[m.group(1)] = m.group(2)
                        order.append(m.group(1))
                i += 1
            break
        i += 1
    out["__order__"] = order
    return out
