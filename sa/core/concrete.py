"""A small interpreter for index-shuffling methods: integer locals are concrete, array cells hold LABELS.

Used where a method's whole input space (which rows are selected) is a handful of small integers and its effect is a permutation / selection of
array cells: the method is run, by interpretation of its syntax tree, for every admissible index tuple; what each cell finally holds is compared
with what it must hold.  Nothing of the repository is executed: cells contain opaque labels ("the value that was in points[2] at entry"),
arithmetic is only done on the integer indices.

Supported: assignments (names, tuples, `self.attr[...]` cells, aliases `t = self.attr`), `if` / `for ... in range(...)` / `while` on integer
state, calls of other methods of the same class (entered), max / min / len / range / abs on integers, conditional expressions.  Anything else raises
NotModelled (the rule then reports UNKNOWN, never a violation)."""
import ast

from .astutil import strip_docstring


def call_name_(e):
    try:
        return ast.unparse(e.func)
    except Exception:
        return ""


class NotModelled(Exception):
    pass


class _Return(Exception):
    def __init__(self, v):
        self.v = v


class Ref:
    """reference to an array attribute of self (an alias of it)"""

    def __init__(self, attr, prefix=()):
        self.attr, self.prefix = attr, tuple(prefix)

    def __repr__(self):
        return "self.%s%s" % (self.attr, list(self.prefix) if self.prefix else "")


class View:
    """a name bound to a sub-array (`tmp = v[i]` with v two-dimensional): numpy gives a VIEW — reading the name later reads the cells as they are then"""

    def __init__(self, attr, idx):
        self.attr, self.idx = attr, tuple(idx)

    def __repr__(self):
        return "view of %s%s" % (self.attr, list(self.idx))


class Cells:
    def __init__(self):
        self.heap = {}
        self.scalars = {}

    def load(self, attr, ix):
        return self.heap.get((attr, tuple(ix)), (attr,) + tuple(ix))

    def store(self, attr, ix, v):
        self.heap[(attr, tuple(ix))] = v


class Interp:
    def __init__(self, cls_info, max_steps=4000, ndims=None):
        self.ci = cls_info
        self.ndims = ndims or {}        # array name -> number of dimensions (a shorter index gives a view, not a value)
        self.cells = Cells()
        self.steps = 0
        self.max_steps = max_steps
        self.calls = []

    def call_method(self, name, args):
        m = self.ci.methods.get(name)
        if m is None:
            raise NotModelled("method %s" % name)
        params = [a.arg for a in m.node.args.args][1:]
        if len(args) != len(params):
            raise NotModelled("arity of %s" % name)
        env = dict(zip(params, args))
        self.calls.append((name, tuple(args)))
        try:
            self.block(strip_docstring(m.node.body), env)
        except _Return as r:
            return r.v
        return None

    def call_function(self, fn_node, args):
        """run a module-level function: integer arguments are concrete, an argument given as Ref is one of the arrays"""
        params = [a.arg for a in fn_node.args.args]
        if len(args) != len(params):
            raise NotModelled("arity")
        env = dict(zip(params, args))
        try:
            self.block(strip_docstring(fn_node.body), env)
        except _Return as r:
            return r.v
        return None

    def value(self, v):
        """a view read as a value: what its cells hold NOW"""
        return self.cells.load(v.attr, v.idx) if isinstance(v, View) else v

    # ------------------------------------------------------------------ statements
    def block(self, stmts, env):
        for st in stmts:
            self.steps += 1
            if self.steps > self.max_steps:
                raise NotModelled("step budget exhausted (a loop on the index state does not end)")
            self.stmt(st, env)

    def stmt(self, st, env):
        if isinstance(st, ast.Assign):
            v = self.ev(st.value, env, keep_view=True)
            for t in st.targets:
                self.assign(t, v if isinstance(t, ast.Name) else self.value(v), env)
        elif isinstance(st, ast.AugAssign):
            cur = self.ev(st.target, env)
            v = self.ev(st.value, env)
            if not (isinstance(cur, int) and isinstance(v, int)):
                raise NotModelled("augmented assignment on non-integers")
            new = {ast.Add: cur + v, ast.Sub: cur - v, ast.Mult: cur * v}.get(type(st.op))
            if new is None:
                raise NotModelled("operator")
            self.assign(st.target, new, env)
        elif isinstance(st, ast.If):
            self.block(st.body if self.truth(self.ev(st.test, env)) else st.orelse, env)
        elif isinstance(st, ast.For):
            it = self.ev(st.iter, env)
            if not isinstance(it, (list, tuple, range)):
                raise NotModelled("loop over %s" % ast.unparse(st.iter))
            for x in it:
                self.assign(st.target, x, env)
                try:
                    self.block(st.body, env)
                except _Break:
                    break
                except _Continue:
                    continue
        elif isinstance(st, ast.While):
            while self.truth(self.ev(st.test, env)):
                try:
                    self.block(st.body, env)
                except _Break:
                    break
                except _Continue:
                    continue
        elif isinstance(st, ast.Return):
            raise _Return(self.ev(st.value, env) if st.value is not None else None)
        elif isinstance(st, ast.Expr):
            if isinstance(st.value, ast.Constant):
                return
            self.ev(st.value, env)
        elif isinstance(st, ast.Pass):
            return
        elif isinstance(st, ast.Break):
            raise _Break()
        elif isinstance(st, ast.Continue):
            raise _Continue()
        elif isinstance(st, ast.Assert):
            return
        else:
            raise NotModelled("statement %s" % type(st).__name__)

    def assign(self, t, v, env):
        if isinstance(t, ast.Name):
            env[t.id] = v
        elif isinstance(t, (ast.Tuple, ast.List)):
            if not isinstance(v, (tuple, list)) or len(v) != len(t.elts):
                raise NotModelled("unpacking")
            for tt, vv in zip(t.elts, v):
                self.assign(tt, vv, env)
        elif isinstance(t, ast.Attribute) and isinstance(t.value, ast.Name) and t.value.id == "self":
            self.cells.scalars[t.attr] = v
        elif isinstance(t, ast.Subscript):
            base = self.ev(t.value, env, keep_view=True)
            if isinstance(base, View):
                base = Ref(base.attr, base.idx)
            if not isinstance(base, Ref):
                raise NotModelled("store into %s" % ast.unparse(t))
            ix = self.index(t.slice, env)
            self.cells.store(base.attr, base.prefix + ix, v)
        else:
            raise NotModelled("target %s" % ast.unparse(t))

    # ------------------------------------------------------------------ expressions
    @staticmethod
    def truth(v):
        if isinstance(v, (bool, int)):
            return bool(v)
        raise NotModelled("truth value of a label")

    def index(self, sl, env):
        if isinstance(sl, ast.Slice):
            raise NotModelled("slice")
        v = self.ev(sl, env)
        ix = tuple(v) if isinstance(v, (tuple, list)) else (v,)
        if not all(isinstance(x, int) and not isinstance(x, bool) for x in ix):
            raise NotModelled("non-integer index")
        return ix

    def ev(self, e, env, keep_view=False):
        if isinstance(e, ast.Constant):
            return e.value
        if isinstance(e, ast.Name):
            if e.id in env:
                return env[e.id] if keep_view else self.value(env[e.id])
            raise NotModelled("name %s" % e.id)
        if isinstance(e, ast.Attribute) and isinstance(e.value, ast.Name) and e.value.id == "self":
            if e.attr in self.cells.scalars:
                return self.cells.scalars[e.attr]
            return Ref(e.attr)
        if isinstance(e, (ast.Tuple, ast.List)):
            return tuple(self.ev(x, env) for x in e.elts)
        if isinstance(e, ast.Subscript):
            base = self.ev(e.value, env, keep_view=True)
            if isinstance(base, View):
                base = Ref(base.attr, base.idx)
            if isinstance(base, Ref):
                ix = self.index(e.slice, env)
                full = base.prefix + ix
                if keep_view and len(full) < self.ndims.get(base.attr, 0):
                    return View(base.attr, full)
                return self.cells.load(base.attr, full)
            if isinstance(base, (tuple, list)):
                i = self.ev(e.slice, env)
                if isinstance(i, int):
                    return base[i]
            raise NotModelled("subscript of %s" % ast.unparse(e.value))
        if isinstance(e, ast.BinOp):
            a, b = self.ev(e.left, env), self.ev(e.right, env)
            if isinstance(a, int) and isinstance(b, int):
                f = {ast.Add: lambda: a + b, ast.Sub: lambda: a - b, ast.Mult: lambda: a * b, ast.FloorDiv: lambda: a // b, ast.Mod: lambda: a % b,
                     ast.LShift: lambda: a << b, ast.RShift: lambda: a >> b, ast.BitAnd: lambda: a & b, ast.BitOr: lambda: a | b}.get(type(e.op))
                if f:
                    return f()
            raise NotModelled("arithmetic on labels")
        if isinstance(e, ast.UnaryOp):
            v = self.ev(e.operand, env)
            if isinstance(e.op, ast.Not):
                return not self.truth(v)
            if isinstance(e.op, ast.USub) and isinstance(v, int):
                return -v
            raise NotModelled("unary operator")
        if isinstance(e, ast.Compare):
            left = self.ev(e.left, env)
            for op, c in zip(e.ops, e.comparators):
                right = self.ev(c, env)
                if not (isinstance(left, int) and isinstance(right, int)):
                    raise NotModelled("comparison of labels")
                f = {ast.Eq: left == right, ast.NotEq: left != right, ast.Lt: left < right, ast.LtE: left <= right, ast.Gt: left > right, ast.GtE: left >= right}.get(type(op))
                if f is None:
                    raise NotModelled("comparison operator")
                if not f:
                    return False
                left = right
            return True
        if isinstance(e, ast.BoolOp):
            if isinstance(e.op, ast.And):
                for v in e.values:
                    if not self.truth(self.ev(v, env)):
                        return False
                return True
            for v in e.values:
                if self.truth(self.ev(v, env)):
                    return True
            return False
        if isinstance(e, ast.IfExp):
            return self.ev(e.body if self.truth(self.ev(e.test, env)) else e.orelse, env)
        if isinstance(e, ast.Call):
            if isinstance(e.func, ast.Attribute) and e.func.attr == "copy" and not e.args and not e.keywords:
                return self.value(self.ev(e.func.value, env, keep_view=True))          # a snapshot of the cells
            if (call_name_(e) in ("np.copy", "np.array", "np.asarray", "np.ascontiguousarray")) and len(e.args) == 1:
                return self.value(self.ev(e.args[0], env, keep_view=True))
            if isinstance(e.func, ast.Attribute) and isinstance(e.func.value, ast.Name) and e.func.value.id == "self" and not e.keywords:
                return self.call_method(e.func.attr, [self.ev(a, env) for a in e.args])
            if isinstance(e.func, ast.Name) and not e.keywords:
                args = [self.ev(a, env) for a in e.args]
                if e.func.id in ("max", "min") and args and all(isinstance(a, int) for a in args):
                    return max(args) if e.func.id == "max" else min(args)
                if e.func.id == "range" and all(isinstance(a, int) for a in args):
                    return range(*args)
                if e.func.id == "abs" and len(args) == 1 and isinstance(args[0], int):
                    return abs(args[0])
                if e.func.id in ("tuple", "list", "sorted") and len(args) == 1 and isinstance(args[0], (tuple, list, range)) and all(isinstance(a, int) for a in args[0]):
                    return tuple(sorted(args[0]) if e.func.id == "sorted" else args[0])
                if e.func.id == "enumerate" and len(args) == 1 and isinstance(args[0], (tuple, list, range)):
                    return tuple(enumerate(args[0]))
                if e.func.id == "zip" and all(isinstance(a, (tuple, list, range)) for a in args):
                    return tuple(zip(*args))
            raise NotModelled("call %s" % ast.unparse(e.func))
        raise NotModelled("expression %s" % type(e).__name__)


class _Break(Exception):
    pass


class _Continue(Exception):
    pass
