"""E1 — abstract interpretation of NumPy values: (ndim, dtype, possible layouts, view-of) per expression.

Three-valued by construction: a *set* of possible layouts is kept per value, every member with the provenance that
produced it.  'C' = C-contiguous, 'F' = Fortran (2-D transposed C), 'N' = strided / not contiguous, '?' = unknown.
Consumers decide PROVEN-BAD only from known members ('N', 'F', wrong ndim / dtype), never from '?'.

Two index-layout rule sets: RUNTIME (what numpy's flags say when a *Python* caller dispatches into numba) and TYPING
(numba's type-level rule for code inside njit functions, which cannot know that a slice is partial).
"""
import ast
import re

from ..core.astutil import u, call_name, const, index_elts, iter_stmts, dotted
from ..core.index import numpydoc_params, ClassInfo, FuncInfo, parse_numba_type, split_top

F8, I8, B1 = "f8", "i8", "b1"


class AV:
    """Abstract value."""
    __slots__ = ("kind", "ndim", "dtype", "layouts", "view", "elts", "cls", "shape", "note")

    def __init__(self, kind, ndim=None, dtype="?", layouts=None, view=None, elts=None, cls=None, shape=None, note=""):
        self.kind = kind            # arr | scalar | tuple | list | obj | none | unknown | func
        self.ndim = ndim
        self.dtype = dtype
        self.layouts = dict(layouts) if layouts else {}   # layout -> provenance text
        self.view = view            # (base text, index text) when this value is a basic-index view of base
        self.elts = elts
        self.cls = cls
        self.shape = shape
        self.note = note

    def __repr__(self):
        if self.kind == "arr":
            return "Arr(%sd,%s,%s%s)" % (self.ndim, self.dtype, "|".join(sorted(self.layouts)), ",view" if self.view else "")
        if self.kind == "tuple":
            return "Tuple(%s)" % (self.elts,)
        if self.kind == "obj":
            return "Obj(%s)" % (self.cls.name if self.cls else "?")
        return self.kind.capitalize()


UNKNOWN = AV("unknown")
NONE = AV("none")


def arr(ndim, dtype=F8, layout="C", prov="", view=None, shape=None):
    return AV("arr", ndim, dtype, {layout: prov}, view, shape=shape)


def scalar(dtype=F8):
    return AV("scalar", 0, dtype)


def join(a, b):
    if a is None:
        return b
    if b is None:
        return a
    if a.kind == "none":
        return b
    if b.kind == "none":
        return a
    if a.kind != b.kind:
        return UNKNOWN
    if a.kind == "arr":
        lay = dict(a.layouts)
        for k, v in b.layouts.items():
            lay.setdefault(k, v)
        return AV("arr", a.ndim if a.ndim == b.ndim else None, a.dtype if a.dtype == b.dtype else "?", lay,
                  a.view if a.view == b.view else None, shape=a.shape if a.shape == b.shape else None)
    if a.kind == "scalar":
        return AV("scalar", 0, a.dtype if a.dtype == b.dtype else "?")
    if a.kind == "tuple":
        if a.elts is not None and b.elts is not None and len(a.elts) == len(b.elts):
            return AV("tuple", elts=[join(x, y) for x, y in zip(a.elts, b.elts)])
        return AV("tuple")
    if a.kind == "obj":
        return a if a.cls is b.cls else AV("obj")
    return a


_SHAPE = re.compile(r"shape\s*\(([^)]*)\)?")


def av_from_doc(txt, idx=None, module=None):
    """numpydoc type text -> AV (domain D: documented arrays are float64 and C-contiguous)."""
    if txt is None:
        return UNKNOWN
    t = txt.strip()
    tl = t.lower()
    m = _SHAPE.search(t)
    if tl.startswith("array") or tl.startswith("shape") or (m and "array" in tl):
        if m:
            dims = [d.strip() for d in m.group(1).split(",") if d.strip()]
            shape = tuple(int(d) if d.isdigit() else None for d in dims)
            dt = I8 if ("triangles" in tl or "indices" in tl) else F8
            return arr(len(dims), dt, "C", "documented array (domain D: C-contiguous)", shape=shape)
        return AV("arr", None, F8, {"C": "documented array"})
    first = re.split(r"[ ,]", tl)[0]
    if first in ("float", "double"):
        return scalar(F8)
    if first in ("int", "integer"):
        return scalar(I8)
    if first in ("bool", "boolean"):
        return scalar(B1)
    if first in ("str", "string"):
        return AV("scalar", 0, "str")
    if idx is not None and module is not None:
        name = re.split(r"[ ,]", t)[0]
        r = idx.resolve_name(module, name)
        if r and r[0] == "class":
            return AV("obj", cls=r[1])
        if name in ("Collider", "ConvexCollider"):
            c = idx.modules.get("distance3d.colliders")
            if c and "ConvexCollider" in c.classes:
                return AV("obj", cls=c.classes["ConvexCollider"])
        # search all library classes by name (numpydoc refers to classes of other modules)
        hits = [c for m in idx.lib_modules() for c in m.classes.values() if c.name == name]
        if len(hits) == 1:
            return AV("obj", cls=hits[0])
    return UNKNOWN


def av_from_numba(t):
    dt, ndim, layout = t
    d = {"float64": F8, "int64": I8, "boolean": B1, "bool_": B1, "int32": "i4", "float32": "f4", "intp": I8}.get(dt, "?")
    if ndim == 0:
        return scalar(d)
    return arr(ndim, d, {"C": "C", "F": "F", "A": "?"}[layout], "declared %s" % (t,))


def parse_ret_type(txt):
    """Return type text of an eager signature -> AV ('Tuple((a, b))' handled)."""
    txt = txt.replace("numba.types.", "").replace("types.", "").replace("numba.", "").strip()
    m = re.match(r"^(Uni)?Tuple\(\((.*)\)\)$", txt)
    if m:
        return AV("tuple", elts=[parse_ret_type(x) for x in split_top(m.group(2)) if x])
    return av_from_numba(parse_numba_type(txt))


# ---------------------------------------------------------------------------------------------- index layout rules
def _is_full_slice(s):
    return isinstance(s, ast.Slice) and s.lower is None and s.upper is None and s.step is None


def index_result(base, elts, consts, mode):
    """Result AV of basic indexing base[elts] (ints, slices, np.newaxis/None); None when advanced indexing."""
    if base.kind != "arr" or base.ndim is None:
        return None
    kinds = []
    for e in elts:
        if isinstance(e, ast.Slice):
            step = const(e.step, consts) if e.step is not None else 1
            kinds.append(("slice", e, step))
        elif (isinstance(e, ast.Constant) and e.value is None) or u(e) in ("np.newaxis", "numpy.newaxis"):
            kinds.append(("new", e, None))
        elif isinstance(e, ast.Constant) and e.value is Ellipsis:
            return None
        else:
            kinds.append(("int?", e, None))
    return kinds


def basic_index(base, elts, env, interp, mode, prov):
    """mode 'runtime' | 'typing'."""
    consts = interp.consts_of(env)
    kinds = []
    for e in elts:
        if isinstance(e, ast.Slice):
            kinds.append("slice")
        elif (isinstance(e, ast.Constant) and e.value is None) or u(e) in ("np.newaxis", "numpy.newaxis"):
            kinds.append("new")
        else:
            v = interp.eval(e, env)
            if v.kind == "scalar" or isinstance(const(e, consts), int):
                kinds.append("int")
            elif v.kind == "arr" or v.kind == "list" or v.kind == "tuple":
                kinds.append("adv")
            else:
                # loop variables over range, counters: names bound to unknown -> assume integer for names that look
                # like indices is NOT done: unknown stays unknown
                kinds.append("unk")
    if base.kind != "arr":
        return UNKNOWN
    if "adv" in kinds:
        nd = None
        if base.ndim is not None:
            # advanced index with one 1-D index array on the first axis keeps ndim
            nd = base.ndim - sum(1 for k in kinds if k == "int") + sum(1 for k in kinds if k == "new")
        return AV("arr", nd, base.dtype, {"C": "advanced indexing makes a copy"})
    if "unk" in kinds:
        # most unknown indices are integer loop variables; ndim cannot be decided without that
        n_unknown = kinds.count("unk")
        nd = None
        lay = {"?": "index kind unknown"}
        if base.ndim is not None:
            # assume integer for ndim purposes only when every unknown index is a plain name / simple arithmetic
            simple = all(isinstance(e, (ast.Name, ast.BinOp, ast.Attribute, ast.Subscript, ast.Call, ast.UnaryOp)) for e, k in zip(elts, kinds) if k == "unk")
            if simple:
                nd = base.ndim - kinds.count("int") - n_unknown + kinds.count("new")
                kinds2 = ["int" if k == "unk" else k for k in kinds]
                lay = _layout_after(base, elts, kinds2, consts, mode, prov)
        if nd is not None and nd <= 0:
            return scalar(base.dtype)
        return AV("arr", nd, base.dtype, lay, view=(None, None))
    if base.ndim is None:
        return AV("arr", None, base.dtype, {"?": "ndim of base unknown"})
    nd = base.ndim - kinds.count("int") + kinds.count("new")
    if nd <= 0:
        return scalar(base.dtype)
    lay = _layout_after(base, elts, kinds, consts, mode, prov)
    shape = None
    return AV("arr", nd, base.dtype, lay, shape=shape)


def _layout_after(base, elts, kinds, consts, mode, prov):
    out = {}
    for bl, bprov in base.layouts.items():
        if bl == "?":
            out.setdefault("?", bprov)
            continue
        if bl in ("N",):
            # a further int index on the leading axis of a strided array may or may not be contiguous
            out.setdefault("?" if mode == "runtime" else "?", bprov)
            continue
        if bl == "F":
            out.setdefault("?", bprov)
            continue
        # base is C
        pos = 0
        seq = []   # per base dimension: 'int' | 'full' | 'part' | 'step'
        for e, k in zip(elts, kinds):
            if k == "new":
                continue
            if k == "int":
                seq.append("int")
            else:
                step = const(e.step, consts) if e.step is not None else 1
                if step != 1:
                    seq.append("step")
                elif _is_full_slice(e):
                    seq.append("full")
                else:
                    full = False
                    if base.shape is not None and pos < len(base.shape) and base.shape[pos] is not None:
                        lo = const(e.lower, consts) if e.lower is not None else 0
                        hi = const(e.upper, consts) if e.upper is not None else base.shape[pos]
                        if lo == 0 and hi == base.shape[pos]:
                            full = True
                    seq.append("full" if (full and mode == "runtime") else "part")
            pos += 1
        while len(seq) < (base.ndim or 0):
            seq.append("full")
        if mode == "typing":
            # numba: every index but the innermost must be an integer; the innermost may be a step-free slice; a
            # partial index list (fewer indices than dims) must be all integers
            given = [s for s in seq[:len([k for k in kinds if k != "new"])]]
            n_given = len(given)
            if n_given == base.ndim:
                ok = all(s == "int" for s in given[:-1]) and given[-1] in ("int", "full", "part")
            else:
                ok = all(s == "int" for s in given)
            out.setdefault("C" if ok else "N", "%s (numba typing rule)" % prov)
            continue
        # runtime rule: [int]* [one step-1 slice]? [full]*  -> contiguous
        i = 0
        while i < len(seq) and seq[i] == "int":
            i += 1
        ok = True
        if i < len(seq):
            if seq[i] == "step":
                ok = False
            i += 1
            while i < len(seq):
                if seq[i] != "full":
                    ok = False
                i += 1
        # a trailing size-1 dimension keeps things contiguous; unknown shapes are assumed > 1 (domain D shapes)
        out.setdefault("C" if ok else "N", prov)
    return out


# ---------------------------------------------------------------------------------------------- interpreter
class Env:
    def __init__(self, func, selfcls=None):
        self.func = func
        self.vars = {}
        self.selfcls = selfcls
        self.mode = "typing" if (func is not None and func.njit) else "runtime"

    def copy(self):
        e = Env(self.func, self.selfcls)
        e.vars = dict(self.vars)
        e.mode = self.mode
        return e


class ArrayInterp:
    def __init__(self, idx):
        self.idx = idx
        self._ret = {}          # func key -> AV
        self._attrs = {}        # class key -> {attr: AV}
        self._busy = set()
        self.call_sites = []    # (caller FuncInfo, call node, callee FuncInfo, [arg AVs], {kw: AV})
        self.alias_events = []  # (func, stmt, text)
        self.attr_resolved = []
        self.attr_events = []   # (func, node, class, attr): attribute read on a receiver of known class that the class does not define
        self._analysed = set()
        self.stats = {"expr": 0, "known": 0}
        self.hints = {}         # (func key, param index) -> AV joined over call sites (undocumented private helpers)

    def make_hints(self):
        """Join of the argument values seen at the recorded call sites, per callee parameter."""
        h = {}
        for caller, node, callee, argv, kwv, is_meth in self.call_sites:
            params = callee.params()
            off = 1 if (is_meth and params and params[0] == "self") else 0
            for i, av in enumerate(argv):
                k = (callee.key, i + off)
                h[k] = join(h[k], av) if k in h else av
            for name, av in kwv.items():
                if name in params:
                    k = (callee.key, params.index(name))
                    h[k] = join(h[k], av) if k in h else av
        return h

    def reset(self, hints):
        self._ret, self._attrs, self._busy = {}, {}, set()
        self.call_sites, self.alias_events, self._analysed = [], [], set()
        self.attr_events = []
        self.attr_resolved = []
        self.stats = {"expr": 0, "known": 0}
        self.hints = hints

    # ------------------------------------------------------------------ helpers
    def consts_of(self, env):
        return env.func.module.constants if env.func is not None else {}

    def param_env(self, f, cls=None):
        env = Env(f, cls or f.cls)
        doc = numpydoc_params(f.node)
        if f.cls is not None and f.name == "__init__":
            cdoc = numpydoc_params(f.cls.node)
            for k, v in cdoc.items():
                doc.setdefault(k, v)
        if f.cls is not None and not [k for k in doc if k != "__order__"]:
            # inherit documentation from the abstract base method
            for c in self.idx.mro(f.cls)[1:]:
                if f.name in c.methods:
                    doc = numpydoc_params(c.methods[f.name].node)
                    if [k for k in doc if k != "__order__"]:
                        break
        params = f.params()
        sig = f.eager[0][1] if f.eager else None
        for i, p in enumerate(params):
            if p == "self":
                env.vars[p] = AV("obj", cls=env.selfcls)
                continue
            if sig is not None and i < len(sig):
                env.vars[p] = av_from_numba(sig[i])
                # declared 'A' layout: callers may pass anything; inside treat as unknown layout
                continue
            if p in doc:
                env.vars[p] = av_from_doc(doc[p], self.idx, f.module)
            elif (f.key, i) in self.hints:
                env.vars[p] = self.hints[(f.key, i)]
            else:
                env.vars[p] = UNKNOWN
        # defaults that are None
        return env

    def class_attrs(self, ci):
        if ci.key in self._attrs:
            return self._attrs[ci.key]
        if ("cls", ci.key) in self._busy:
            return {}
        self._busy.add(("cls", ci.key))
        table = {}
        self._attrs[ci.key] = table
        for rnd in range(2):
            for c in reversed(self.idx.mro(ci)):
                for meth in c.methods.values():
                    env = self.param_env(meth, ci)
                    self._exec_body(meth.node.body, env, record=False, attr_sink=(table, "%s.%s" % (c.name, meth.name)))
        self._busy.discard(("cls", ci.key))
        return table

    def return_value(self, f, record=False):
        if f.key in self._ret and not record:
            return self._ret[f.key]
        if ("ret", f.key) in self._busy:
            return UNKNOWN
        self._busy.add(("ret", f.key))
        env = self.param_env(f)
        rets = []
        self._exec_body(f.node.body, env, record=record, rets=rets)
        self._busy.discard(("ret", f.key))
        rv = None
        for r in rets:
            rv = join(rv, r)
        if rv is None:
            rv = NONE
        if f.eager:
            # declared return type wins for layout (numba will have coerced to it)
            try:
                rv2 = parse_ret_type(f.eager[0][0])
                if rv2.kind == "arr" and rv.kind == "arr" and "?" in rv2.layouts and "?" not in rv.layouts:
                    pass   # keep the more precise inferred layout (runtime arrays keep their flags)
                else:
                    rv = rv2 if rv2.kind in ("arr", "scalar", "tuple") else rv
            except Exception:
                pass
        self._ret[f.key] = rv
        return rv

    def analyse_function(self, f):
        """Evaluate f's body recording call sites and alias events."""
        if f.key in self._analysed:
            return
        self._analysed.add(f.key)
        self.return_value(f, record=True)

    # ------------------------------------------------------------------ statements
    def _exec_body(self, body, env, record, rets=None, attr_sink=None):
        for st in body:
            self._exec(st, env, record, rets, attr_sink)

    def _exec(self, st, env, record, rets, attr_sink):
        if isinstance(st, (ast.FunctionDef, ast.AsyncFunctionDef, ast.ClassDef, ast.Import, ast.ImportFrom, ast.Pass,
                           ast.Global, ast.Nonlocal, ast.Break, ast.Continue)):
            return
        if isinstance(st, ast.Return):
            v = self.eval(st.value, env, record) if st.value is not None else NONE
            if rets is not None:
                rets.append(v)
            return
        if isinstance(st, ast.Assign):
            v = self.eval(st.value, env, record)
            for t in st.targets:
                self._assign(t, v, st.value, env, record, attr_sink, st)
            return
        if isinstance(st, ast.AnnAssign):
            if st.value is not None:
                v = self.eval(st.value, env, record)
                self._assign(st.target, v, st.value, env, record, attr_sink, st)
            return
        if isinstance(st, ast.AugAssign):
            v = self.eval(st.value, env, record)
            cur = self.eval(st.target, env, record)
            if isinstance(st.target, ast.Name):
                if cur.kind == "arr":
                    pass  # in-place: keeps identity and layout
                elif cur.kind == "scalar" and v.kind == "arr":
                    env.vars[st.target.id] = AV("arr", v.ndim, v.dtype, {"C": "arithmetic result"})
                elif cur.kind == "list":
                    pass
            self._note_store(st.target, env, record, st)
            return
        if isinstance(st, ast.Expr):
            self.eval(st.value, env, record)
            return
        if isinstance(st, ast.If):
            self.eval(st.test, env, record)
            e1, e2 = env.copy(), env.copy()
            self._exec_body(st.body, e1, record, rets, attr_sink)
            self._exec_body(st.orelse, e2, record, rets, attr_sink)
            self._merge(env, e1, e2)
            return
        if isinstance(st, (ast.For, ast.While)):
            if isinstance(st, ast.For):
                it = self.eval(st.iter, env, record)
                self._bind_loop_target(st.target, it, st.iter, env)
            else:
                self.eval(st.test, env, record)
            e0 = env.copy()
            e1 = env.copy()
            self._exec_body(st.body, e1, False, rets, attr_sink)
            self._merge(env, e0, e1)
            if isinstance(st, ast.For):
                self._bind_loop_target(st.target, self.eval(st.iter, env, False), st.iter, env)
            e2 = env.copy()
            self._exec_body(st.body, e2, record, rets, attr_sink)
            self._merge(env, e0, e2)
            self._exec_body(st.orelse, env, record, rets, attr_sink)
            return
        if isinstance(st, ast.With):
            for it in st.items:
                self.eval(it.context_expr, env, record)
            self._exec_body(st.body, env, record, rets, attr_sink)
            return
        if isinstance(st, ast.Try):
            self._exec_body(st.body, env, record, rets, attr_sink)
            for h in st.handlers:
                self._exec_body(h.body, env.copy(), record, rets, attr_sink)
            self._exec_body(st.orelse, env, record, rets, attr_sink)
            self._exec_body(st.finalbody, env, record, rets, attr_sink)
            return
        if isinstance(st, (ast.Assert, ast.Raise, ast.Delete)):
            for n in ast.iter_child_nodes(st):
                if isinstance(n, ast.expr):
                    self.eval(n, env, record)
            return

    def _merge(self, env, e1, e2):
        keys = set(e1.vars) | set(e2.vars)
        for k in keys:
            a, b = e1.vars.get(k), e2.vars.get(k)
            if a is None or b is None:
                env.vars[k] = a or b
            else:
                env.vars[k] = join(a, b)

    def _bind_loop_target(self, target, it, iternode, env):
        if isinstance(target, ast.Name):
            cn = call_name(iternode) if isinstance(iternode, ast.Call) else None
            if cn in ("range", "numba.prange", "prange"):
                env.vars[target.id] = scalar(I8)
            elif it.kind == "arr" and it.ndim is not None:
                if it.ndim <= 1:
                    env.vars[target.id] = scalar(it.dtype)
                else:
                    lay = {k: "row of %s" % u(iternode) for k in it.layouts if k == "C"} or {"?": "row of strided array"}
                    env.vars[target.id] = AV("arr", it.ndim - 1, it.dtype, lay)
            else:
                env.vars[target.id] = UNKNOWN
        elif isinstance(target, (ast.Tuple, ast.List)):
            cn = call_name(iternode) if isinstance(iternode, ast.Call) else None
            for i, t in enumerate(target.elts):
                if isinstance(t, ast.Name):
                    env.vars[t.id] = scalar(I8) if (cn == "enumerate" and i == 0) else UNKNOWN
                elif isinstance(t, (ast.Tuple, ast.List)):
                    for tt in t.elts:
                        if isinstance(tt, ast.Name):
                            env.vars[tt.id] = UNKNOWN

    def _assign(self, target, v, valnode, env, record, attr_sink, st):
        if isinstance(target, ast.Name):
            env.vars[target.id] = v
        elif isinstance(target, (ast.Tuple, ast.List)):
            elts = target.elts
            if v.kind == "tuple" and v.elts is not None and len(v.elts) == len(elts):
                for t, x in zip(elts, v.elts):
                    self._assign(t, x, None, env, record, attr_sink, st)
            elif v.kind == "arr" and v.ndim is not None:
                for t in elts:
                    if v.ndim <= 1:
                        self._assign(t, scalar(v.dtype), None, env, record, attr_sink, st)
                    else:
                        lay = {k: p for k, p in v.layouts.items() if k == "C"} or {"?": "row"}
                        self._assign(t, AV("arr", v.ndim - 1, v.dtype, lay), None, env, record, attr_sink, st)
            else:
                for t in elts:
                    self._assign(t, UNKNOWN, None, env, record, attr_sink, st)
        elif isinstance(target, ast.Attribute):
            if isinstance(target.value, ast.Name) and target.value.id == "self" and attr_sink is not None:
                table, where = attr_sink
                tagged = v
                if v.kind == "arr":
                    tagged = AV("arr", v.ndim, v.dtype, {k: "%s: self.%s = %s" % (where, target.attr, u(valnode) if valnode is not None else "...")
                                                         for k in v.layouts}, None, shape=v.shape)
                table[target.attr] = join(table.get(target.attr), tagged) if target.attr in table else tagged
        elif isinstance(target, ast.Subscript):
            self._note_store(target, env, record, st)

    def _note_store(self, target, env, record, st):
        """A store into base[idx]: remember it so that later reads of views of the same element are flagged."""
        if not isinstance(target, ast.Subscript):
            return
        key = (u(target.value), u(target.slice))
        # invalidate views: mark any variable that is a view of exactly this element
        for name, v in list(env.vars.items()):
            if isinstance(v, AV) and v.kind == "arr" and v.view == key:
                nv = AV("arr", v.ndim, v.dtype, v.layouts, v.view, shape=v.shape, note="stale:%d" % st.lineno)
                env.vars[name] = nv

    # ------------------------------------------------------------------ expressions
    def eval(self, node, env, record=False):
        v = self._eval(node, env, record)
        self.stats["expr"] += 1
        if v.kind != "unknown":
            self.stats["known"] += 1
        return v

    def _eval(self, node, env, record):
        if node is None:
            return NONE
        C = self.consts_of(env)
        if isinstance(node, ast.Constant):
            if isinstance(node.value, bool):
                return scalar(B1)
            if isinstance(node.value, int):
                return scalar(I8)
            if isinstance(node.value, float):
                return scalar(F8)
            if node.value is None:
                return NONE
            return AV("scalar", 0, "str")
        if isinstance(node, ast.Name):
            if node.id in env.vars:
                v = env.vars[node.id]
                if record and isinstance(v, AV) and v.kind == "arr" and v.note.startswith("stale") and isinstance(node.ctx, ast.Load):
                    self.alias_events.append((env.func, node, "`%s` is a view of %s[%s], which was overwritten at line %s before this read"
                                              % (node.id, v.view[0], v.view[1], v.note.split(":")[1]), v.view))
                return v
            r = self.idx.resolve_name(env.func.module, node.id) if env.func is not None else None
            if r:
                if r[0] == "const":
                    cv = r[1]
                    if isinstance(cv, bool):
                        return scalar(B1)
                    if isinstance(cv, int):
                        return scalar(I8)
                    if isinstance(cv, float):
                        return scalar(F8)
                    return AV("scalar", 0, "str")
                if r[0] == "constnode":
                    m, n = r[1]
                    return self._eval_module_const(m, n)
                if r[0] == "class":
                    return AV("func", cls=r[1])
                if r[0] == "func":
                    return AV("func", cls=r[1])
            return UNKNOWN
        if isinstance(node, ast.Attribute):
            if node.attr == "T":
                b = self.eval(node.value, env, record)
                if b.kind == "arr":
                    if b.ndim is not None and b.ndim <= 1:
                        return b
                    lay = {}
                    for k, p in b.layouts.items():
                        lay[{"C": "F", "F": "C", "N": "N", "?": "?"}[k]] = "transpose of %s (%s)" % (u(node.value), p or k)
                    return AV("arr", b.ndim, b.dtype, lay)
                return UNKNOWN
            b = self.eval(node.value, env, record)
            if b.kind == "arr" and node.attr == "shape":
                return AV("tuple")
            if b.kind == "arr" and node.attr in ("size", "ndim"):
                return scalar(I8)
            if b.kind == "obj" and b.cls is not None:
                table = self.class_attrs(b.cls)
                if node.attr in table:
                    if record:
                        self.attr_resolved.append((env.func, node, b.cls, node.attr))
                    return table[node.attr]
                m = self.idx.find_method(b.cls, node.attr)
                if m is not None:
                    if record:
                        self.attr_resolved.append((env.func, node, b.cls, node.attr))
                    if any(d in ("property", "functools.cached_property", "cached_property") for d in m.decorators):
                        return self.return_value(m)
                    return AV("func", cls=m)
                if record:
                    self.attr_events.append((env.func, node, b.cls, node.attr))
                # abstract collider: join over all subclasses is too imprecise -> unknown
            if dotted(node) in ("np.pi", "math.pi", "np.inf", "math.inf", "np.nan"):
                return scalar(F8)
            return UNKNOWN
        if isinstance(node, ast.Subscript):
            b = self.eval(node.value, env, record)
            elts = index_elts(node)
            if b.kind == "arr":
                r = basic_index(b, elts, env, self, env.mode, "%s" % u(node))
                for e in elts:
                    if not isinstance(e, ast.Slice):
                        self.eval(e, env, record)
                if r.kind == "arr" and isinstance(node.ctx, ast.Load):
                    is_view = not any(k == "C" and p.startswith("advanced") for k, p in r.layouts.items())
                    r = AV("arr", r.ndim, r.dtype, r.layouts, (u(node.value), u(node.slice)) if is_view else None, shape=r.shape)
                return r
            if b.kind == "tuple" and b.elts is not None:
                i = const(node.slice, C)
                if isinstance(i, int) and -len(b.elts) <= i < len(b.elts):
                    return b.elts[i]
            if b.kind == "list" and b.elts:
                return b.elts[0] if not isinstance(node.slice, ast.Slice) else b
            return UNKNOWN
        if isinstance(node, ast.UnaryOp):
            v = self.eval(node.operand, env, record)
            if isinstance(node.op, ast.Not):
                return scalar(B1)
            if v.kind == "arr":
                return AV("arr", v.ndim, v.dtype, {"C": "arithmetic result"})
            return v if v.kind == "scalar" else UNKNOWN
        if isinstance(node, ast.BinOp):
            a = self.eval(node.left, env, record)
            b = self.eval(node.right, env, record)
            if isinstance(node.op, ast.MatMult):
                return self._dot(a, b)
            if a.kind == "list" or b.kind == "list":
                return AV("list", elts=(a.elts or b.elts) if (a.kind == "list") else b.elts)
            if a.kind == "arr" or b.kind == "arr":
                nds = [x.ndim for x in (a, b) if x.kind == "arr"]
                nd = None if any(n is None for n in nds) else max(nds)
                if (a.kind == "unknown" or b.kind == "unknown"):
                    nd = None
                dts = [x.dtype for x in (a, b) if x.kind in ("arr", "scalar")]
                dt = F8 if (F8 in dts or isinstance(node.op, ast.Div)) else (dts[0] if dts and all(d == dts[0] for d in dts) else "?")
                return AV("arr", nd, dt, {"C": "arithmetic result"})
            if a.kind == "scalar" and b.kind == "scalar":
                if isinstance(node.op, ast.Div) or F8 in (a.dtype, b.dtype):
                    return scalar(F8)
                return scalar(a.dtype if a.dtype == b.dtype else "?")
            return UNKNOWN
        if isinstance(node, (ast.Compare, ast.BoolOp)):
            vals = []
            for n in ast.iter_child_nodes(node):
                if isinstance(n, ast.expr):
                    vals.append(self.eval(n, env, record))
            arrs = [x for x in vals if x.kind == "arr"]
            if arrs and isinstance(node, ast.Compare):
                nd = max((x.ndim or 0) for x in arrs) if all(x.ndim is not None for x in arrs) else None
                return AV("arr", nd, B1, {"C": "comparison result"})
            if isinstance(node, ast.BoolOp):
                out = None
                for x in vals:
                    out = join(out, x)
                return out or scalar(B1)
            return scalar(B1)
        if isinstance(node, ast.IfExp):
            self.eval(node.test, env, record)
            return join(self.eval(node.body, env, record), self.eval(node.orelse, env, record))
        if isinstance(node, ast.Tuple):
            return AV("tuple", elts=[self.eval(e, env, record) for e in node.elts])
        if isinstance(node, ast.List):
            return AV("list", elts=[self.eval(e, env, record) for e in node.elts])
        if isinstance(node, (ast.ListComp, ast.GeneratorExp)):
            e2 = env.copy()
            for g in node.generators:
                it = self.eval(g.iter, e2, record)
                self._bind_loop_target(g.target, it, g.iter, e2)
            return AV("list", elts=[self.eval(node.elt, e2, record)])
        if isinstance(node, ast.Call):
            return self._call(node, env, record)
        if isinstance(node, ast.Starred):
            return UNKNOWN
        for n in ast.iter_child_nodes(node):
            if isinstance(n, ast.expr):
                self.eval(n, env, record)
        return UNKNOWN

    def _eval_module_const(self, module, node):
        key = ("mconst", module.name, id(node))
        if key in self._ret:
            return self._ret[key]
        self._ret[key] = UNKNOWN
        fake = Env(None)
        fake.func = _FakeFunc(module)
        fake.mode = "runtime"
        v = self.eval(node, fake)
        self._ret[key] = v
        return v

    def _dot(self, a, b):
        if a.kind == "arr" and b.kind == "arr" and a.ndim is not None and b.ndim is not None:
            if a.ndim == 1 and b.ndim == 1:
                return scalar(F8 if F8 in (a.dtype, b.dtype) else a.dtype)
            nd = a.ndim + b.ndim - 2
            return AV("arr", nd, F8 if F8 in (a.dtype, b.dtype) else a.dtype, {"C": "dot product result"})
        if a.kind == "arr" or b.kind == "arr":
            return AV("arr", None, F8, {"C": "dot product result"})
        return UNKNOWN

    def _shape_ndim(self, node, env):
        if isinstance(node, (ast.Tuple, ast.List)):
            return len(node.elts), tuple(const(e, self.consts_of(env)) if isinstance(const(e, self.consts_of(env)), int) else None for e in node.elts)
        v = self.eval(node, env)
        if v.kind == "scalar":
            return 1, (const(node, self.consts_of(env)) if isinstance(const(node, self.consts_of(env)), int) else None,)
        if v.kind == "tuple" and v.elts is not None:
            return len(v.elts), None
        return None, None

    def _dtype_kw(self, call, default):
        for kw in call.keywords:
            if kw.arg == "dtype":
                t = u(kw.value)
                if "int" in t:
                    return I8
                if "bool" in t:
                    return B1
                if "float" in t or "double" in t:
                    return F8
                return "?"
        return default

    def _literal_array(self, node, env, record):
        """np.array([...]) nesting depth and dtype."""
        v = self.eval(node, env, record)

        def depth(x):
            if x.kind in ("list", "tuple"):
                if not x.elts:
                    return 1, "?"
                ds = [depth(e) for e in x.elts]
                d0 = ds[0][0]
                if d0 is None or any(d[0] != d0 for d in ds):
                    return None, "?"
                dts = {d[1] for d in ds}
                dt = F8 if F8 in dts else (I8 if dts == {I8} else (B1 if dts == {B1} else "?"))
                if "?" in dts and F8 not in dts:
                    dt = "?"
                return d0 + 1, dt
            if x.kind == "scalar":
                return 0, x.dtype
            if x.kind == "arr":
                return x.ndim, x.dtype
            return None, "?"
        return depth(v), v

    def _call(self, node, env, record):
        cn = call_name(node) or ""
        args = node.args
        short = cn.split(".")[-1]
        # ---- numpy constructors and functions
        if cn.startswith("np.") or cn.startswith("numpy.") or cn.startswith("math."):
            for kw in node.keywords:
                self.eval(kw.value, env, record)
            if short in ("array", "asarray", "ascontiguousarray", "copy", "asfortranarray"):
                if not args:
                    return UNKNOWN
                (nd, dt), v = self._literal_array(args[0], env, record)
                dt = self._dtype_kw(node, dt)
                if short in ("asarray",) and v.kind == "arr" and not any(k.arg == "dtype" for k in node.keywords):
                    return v
                if short == "asfortranarray":
                    return AV("arr", nd, dt, {"F": "np.asfortranarray"})
                return AV("arr", nd, dt, {"C": "np.%s makes a fresh C-contiguous array" % short})
            if short in ("zeros", "ones", "empty", "full"):
                nd, shp = self._shape_ndim(args[0], env) if args else (None, None)
                if short == "full" and len(args) > 1:
                    fv = self.eval(args[1], env, record)
                    dflt = fv.dtype if fv.kind == "scalar" else "?"
                else:
                    dflt = F8
                return AV("arr", nd, self._dtype_kw(node, dflt), {"C": "np.%s" % short}, shape=shp)
            if short in ("zeros_like", "ones_like", "empty_like", "full_like"):
                v = self.eval(args[0], env, record)
                return AV("arr", v.ndim if v.kind == "arr" else None, v.dtype if v.kind == "arr" else "?", {"C": "np.%s" % short})
            if short in ("eye", "identity"):
                return arr(2, F8, "C", "np.eye")
            if short in ("arange", "linspace"):
                for a in args:
                    self.eval(a, env, record)
                return arr(1, I8 if short == "arange" else F8, "C", "np.%s" % short)
            if short == "dot":
                a = self.eval(args[0], env, record)
                b = self.eval(args[1], env, record)
                return self._dot(a, b)
            if short in ("cross",):
                a = self.eval(args[0], env, record)
                b = self.eval(args[1], env, record)
                nds = [x.ndim for x in (a, b) if x.kind == "arr" and x.ndim is not None]
                return AV("arr", max(nds) if len(nds) == 2 else None, F8, {"C": "np.cross result"})
            if short == "outer":
                for a in args:
                    self.eval(a, env, record)
                return arr(2, F8, "C", "np.outer")
            if short in ("norm", "sum", "mean", "min", "max", "prod", "any", "all", "argmax", "argmin", "std", "var", "median", "amin", "amax", "nanmin", "nanmax"):
                v = self.eval(args[0], env, record) if args else UNKNOWN
                for a in args[1:]:
                    self.eval(a, env, record)
                axis = None
                has_axis = False
                for kw in node.keywords:
                    if kw.arg == "axis":
                        has_axis = True
                        axis = const(kw.value, self.consts_of(env))
                if len(args) > 1 and short != "norm":
                    has_axis = True
                dt = I8 if short.startswith("arg") else (B1 if short in ("any", "all") else F8)
                if not has_axis:
                    return scalar(dt)
                if v.kind == "arr" and v.ndim is not None:
                    if v.ndim - 1 <= 0:
                        return scalar(dt)
                    return AV("arr", v.ndim - 1, dt, {"C": "reduction result"})
                return AV("arr", None, dt, {"C": "reduction result"})
            if short in ("vstack", "row_stack"):
                self.eval(args[0], env, record) if args else None
                return arr(2, F8, "C", "np.%s" % short)
            if short in ("column_stack", "dstack"):
                self.eval(args[0], env, record) if args else None
                return arr(2 if short == "column_stack" else 3, F8, "C", "np.%s" % short)
            if short in ("hstack", "concatenate", "append", "stack"):
                v = self.eval(args[0], env, record) if args else UNKNOWN
                for a in args[1:]:
                    self.eval(a, env, record)
                nd = None
                if short == "append" and v.kind == "arr":
                    nd = v.ndim if any(k.arg == "axis" for k in node.keywords) else 1
                elif v.kind in ("list", "tuple") and v.elts:
                    e0 = v.elts[0]
                    if e0.kind == "arr" and e0.ndim is not None:
                        nd = e0.ndim + (1 if short == "stack" else 0)
                # dtype of a concatenation of a literal of arrays: the common dtype of the parts when they agree (np.argmax columns stay int64)
                dt_ = F8 if not (v.kind == "arr" and v.dtype != F8) else v.dtype
                if v.kind in ("list", "tuple") and v.elts and all(e_.kind == "arr" and e_.dtype is not None for e_ in v.elts) and len({e_.dtype for e_ in v.elts}) == 1:
                    dt_ = v.elts[0].dtype
                return AV("arr", nd, dt_, {"C": "np.%s" % short})
            if short in ("sqrt", "abs", "sign", "sin", "cos", "tan", "arccos", "arcsin", "arctan", "arctan2", "exp", "log", "clip", "minimum", "maximum",
                         "fabs", "negative", "square", "power", "floor", "ceil", "round", "hypot", "fmin", "fmax", "isnan", "isfinite", "logical_and", "logical_or", "logical_not",
                         "deg2rad", "rad2deg", "cumsum", "cumprod", "nan_to_num", "absolute", "copysign", "degrees", "radians", "acos", "asin", "atan2", "atan", "pow"):
                vals = [self.eval(a, env, record) for a in args]
                arrs = [x for x in vals if x.kind == "arr"]
                if arrs:
                    nd = max(x.ndim for x in arrs) if all(x.ndim is not None for x in arrs) else None
                    return AV("arr", nd, B1 if short.startswith(("is", "logical")) else F8, {"C": "elementwise result"})
                if vals and all(x.kind == "scalar" for x in vals):
                    return scalar(F8)
                return UNKNOWN
            if short in ("where", "nonzero", "argwhere", "unique", "sort", "argsort", "flatnonzero", "argpartition", "roll", "flip", "tile", "repeat", "diff", "delete", "insert", "take"):
                vals = [self.eval(a, env, record) for a in args]
                if short == "where" and len(args) == 3:
                    arrs = [x for x in vals if x.kind == "arr"]
                    nd = max(x.ndim for x in arrs) if arrs and all(x.ndim is not None for x in arrs) else None
                    return AV("arr", nd, vals[1].dtype if vals[1].kind in ("arr", "scalar") else "?", {"C": "np.where"})
                if short in ("where", "nonzero"):
                    return AV("tuple")
                v = vals[0] if vals else UNKNOWN
                dt = I8 if short in ("argsort", "flatnonzero", "argwhere", "argpartition") else (v.dtype if v.kind == "arr" else "?")
                nd = v.ndim if (v.kind == "arr" and short in ("sort", "argsort", "roll", "flip", "diff", "take")) else (1 if short in ("unique", "flatnonzero") else None)
                return AV("arr", nd, dt, {"C": "np.%s result" % short})
            if short in ("finfo", "dtype", "random", "iinfo"):
                return UNKNOWN
            if short in ("isclose", "allclose", "array_equal"):
                for a in args:
                    self.eval(a, env, record)
                return scalar(B1)
            if short in ("float64", "float", "int64", "int32", "intp"):
                for a in args:
                    self.eval(a, env, record)
                return scalar(F8 if "float" in short else I8)
            if short in ("inv", "pinv", "solve", "lstsq", "det", "eig", "eigh", "svd", "qr"):
                vals = [self.eval(a, env, record) for a in args]
                if short == "det":
                    return scalar(F8)
                if short in ("inv", "pinv", "solve"):
                    return AV("arr", vals[-1].ndim if vals and vals[-1].kind == "arr" else None, F8, {"C": "linalg result"})
                return AV("tuple")
            if short in ("reshape", "transpose", "squeeze", "ravel", "expand_dims", "atleast_2d", "atleast_1d", "swapaxes", "moveaxis"):
                for a in args:
                    self.eval(a, env, record)
                return AV("arr", None, F8, {"?": "np.%s" % short})
            if short == "full":
                return AV("arr", None, "?", {"C": "np.full"})
            if short == "array_split" or short == "split":
                return AV("list")
            if short == "einsum":
                for a in args:
                    self.eval(a, env, record)
                return AV("arr", None, F8, {"C": "np.einsum"})
            if cn.startswith("math."):
                for a in args:
                    self.eval(a, env, record)
                return scalar(F8)
            for a in args:
                self.eval(a, env, record)
            return UNKNOWN
        # ---- builtins
        if cn in ("len", "int", "range", "abs", "float", "min", "max", "bool", "sum", "round", "enumerate", "zip", "list", "tuple", "sorted", "reversed", "print", "isinstance", "str", "set", "dict", "any", "all", "hasattr", "getattr", "super", "type", "id", "iter", "next", "map", "filter", "divmod", "pow"):
            vals = [self.eval(a, env, record) for a in args]
            for kw in node.keywords:
                self.eval(kw.value, env, record)
            if cn in ("len", "int"):
                return scalar(I8)
            if cn in ("float",):
                return scalar(F8)
            if cn in ("bool", "isinstance", "any", "all", "hasattr"):
                return scalar(B1)
            if cn in ("abs", "min", "max", "sum", "round", "pow"):
                sc = [x for x in vals if x.kind == "scalar"]
                if vals and len(sc) == len(vals):
                    return scalar(F8 if any(x.dtype == F8 for x in sc) else (I8 if all(x.dtype == I8 for x in sc) else "?"))
                if vals and vals[0].kind == "arr" and cn == "abs":
                    return AV("arr", vals[0].ndim, vals[0].dtype, {"C": "abs result"})
                return UNKNOWN
            if cn in ("list", "tuple") and vals:
                return AV("list" if cn == "list" else "tuple", elts=vals[0].elts if vals[0].kind in ("list", "tuple") else None)
            if cn == "list":
                return AV("list", elts=[])
            return UNKNOWN
        # ---- methods of array values
        if isinstance(node.func, ast.Attribute):
            recv = self.eval(node.func.value, env, record)
            meth = node.func.attr
            argv = [self.eval(a, env, record) for a in args]
            kwv = {kw.arg: self.eval(kw.value, env, record) for kw in node.keywords}
            if recv.kind == "arr":
                if meth == "dot" and argv:
                    return self._dot(recv, argv[0])
                if meth == "copy":
                    return AV("arr", recv.ndim, recv.dtype, {"C": ".copy()"})
                if meth == "astype":
                    t = u(args[0]) if args else ""
                    dt = I8 if "int" in t else (F8 if "float" in t else (B1 if "bool" in t else "?"))
                    return AV("arr", recv.ndim, dt, {"C": ".astype() copy"})
                if meth in ("sum", "mean", "min", "max", "prod", "any", "all", "argmax", "argmin", "std"):
                    dt = I8 if meth.startswith("arg") else (B1 if meth in ("any", "all") else recv.dtype)
                    if "axis" in kwv or args:
                        if recv.ndim is not None and recv.ndim - 1 <= 0:
                            return scalar(dt)
                        return AV("arr", recv.ndim - 1 if recv.ndim else None, dt, {"C": "reduction result"})
                    return scalar(dt)
                if meth in ("argsort", "cumsum", "clip", "round", "conj"):
                    return AV("arr", recv.ndim, I8 if meth == "argsort" else recv.dtype, {"C": ".%s()" % meth})
                if meth in ("reshape", "transpose", "squeeze", "ravel", "flatten", "swapaxes", "view"):
                    if meth == "flatten":
                        return AV("arr", 1, recv.dtype, {"C": ".flatten() copy"})
                    if meth == "reshape":
                        nd = len(args) if len(args) > 1 else (len(args[0].elts) if args and isinstance(args[0], (ast.Tuple, ast.List)) else (1 if args else None))
                        lay = {k: (p) for k, p in recv.layouts.items() if k == "C"} or {"?": ".reshape of non-C array"}
                        return AV("arr", nd, recv.dtype, lay)
                    if meth == "transpose" and not args:
                        lay = {}
                        for k, p in recv.layouts.items():
                            lay[{"C": "F", "F": "C", "N": "N", "?": "?"}[k]] = "transpose"
                        return AV("arr", recv.ndim, recv.dtype, lay)
                    return AV("arr", None, recv.dtype, {"?": ".%s()" % meth})
                if meth == "tolist":
                    return AV("list")
                if meth == "fill":
                    return NONE
                if meth == "item":
                    return scalar(recv.dtype)
                return UNKNOWN
            if recv.kind == "list":
                if meth in ("append", "extend", "insert") and argv:
                    pass
                return UNKNOWN
            if recv.kind == "obj" and recv.cls is not None:
                m = self.idx.find_method(recv.cls, meth)
                if m is not None:
                    if record:
                        self.call_sites.append((env.func, node, m, argv, kwv, True))
                    rv = self.return_value(m)
                    if m.node.body and _is_abstract(m):
                        # abstract method: take the documented return type
                        rv = self._doc_return(m)
                    return rv
                return UNKNOWN
        # ---- package functions / classes
        callee = self.idx.resolve_call(env.func.module, node, env.selfcls) if env.func is not None else None
        argv = [self.eval(a, env, record) for a in args]
        kwv = {kw.arg: self.eval(kw.value, env, record) for kw in node.keywords}
        if isinstance(callee, FuncInfo):
            if record:
                self.call_sites.append((env.func, node, callee, argv, kwv, False))
            return self.return_value(callee)
        if isinstance(callee, ClassInfo):
            init = self.idx.find_method(callee, "__init__")
            if record and init is not None:
                self.call_sites.append((env.func, node, init, [AV("obj", cls=callee)] + argv, kwv, False))
            return AV("obj", cls=callee)
        # local variable holding a function / class
        if isinstance(node.func, ast.Name) and node.func.id in env.vars:
            fv = env.vars[node.func.id]
            if isinstance(fv, AV) and fv.kind == "func" and isinstance(fv.cls, FuncInfo):
                return self.return_value(fv.cls)
        return UNKNOWN

    def _doc_return(self, m):
        doc = numpydoc_params(m.node, "Returns")
        order = doc.get("__order__", [])
        if len(order) == 1:
            return av_from_doc(doc[order[0]], self.idx, m.module)
        if len(order) > 1:
            return AV("tuple", elts=[av_from_doc(doc[o], self.idx, m.module) for o in order])
        return UNKNOWN


def _is_abstract(m):
    return any("abstractmethod" in d for d in m.decorators)


class _FakeFunc:
    """Stand-in 'function' for evaluating module-level expressions."""
    njit = False
    eager = None
    cls = None
    key = "<module>"

    def __init__(self, module):
        self.module = module
