"""E4 — loop exit-discipline classifier.

Every `while` and `for` loop gets one of
  CAP        a counter compared against a bound is advanced on every path to the back edge (for ... in range(...) included;
             `continue` paths that skip the increment are accepted only when they clear a one-way flag)
  STRUCT     structural: iteration over a finite container, stack traversal that pops before it pushes, link walks over the
             tree arrays, the face-removal scan of EPA (variant n_faces - i)
  PROGRESS   continues only through a comparison on a loop-carried float that exits on non-improvement INCLUDING equality,
             with the carried value updated on the continue path (followed into the helper that returns the state)
  TOLERANCE  no cap, no monotone scalar; an exit test against a caller tolerance is evaluated on every iteration
             (termination NOT proved)
or None (unclassified = violation).
"""
import ast

from ..core.astutil import (assign_pairs, u, call_name, calls, iter_stmts, compare_triples, const, parent_map, conjuncts, disjuncts, resolved,
                            stores_in, index_elts, ncmp)


def loops_of(f):
    out = []
    for n in ast.walk(f.node):
        if isinstance(n, (ast.While, ast.For)):
            out.append(n)
    out.sort(key=lambda n: (n.lineno, n.col_offset))
    return out


def _assigned_names(body):
    s = set()
    for st in iter_stmts(body):
        for n in ast.walk(st):
            if isinstance(n, (ast.Name, ast.Attribute)) and isinstance(getattr(n, "ctx", None), ast.Store):
                s.add(u(n))
        if isinstance(st, ast.AugAssign):
            s.add(u(st.target))
    return s


def _top_level_position(loop, st, pm):
    """Index of the top-level body statement of ``loop`` that contains st."""
    cur = st
    while cur is not None and cur not in loop.body:
        cur = pm.get(cur)
    return loop.body.index(cur) if cur in loop.body else None


def classify_for(loop, f, idx=None):
    it = loop.iter
    if isinstance(it, ast.Call) and idx is not None:
        nfix = _fixed_size_helper(idx, f, it)
        if nfix is not None:
            return "STRUCT", ("for over the %d-element literal returned by %s(...)" % (nfix, call_name(it))) if nfix >= 0 else ("for over the generator %s(...), whose own loops are finite" % call_name(it))
    tgt_names = {n.id for n in ast.walk(loop.target) if isinstance(n, ast.Name)}
    cn = call_name(it) if isinstance(it, ast.Call) else None
    assigned = _assigned_names(loop.body)
    if cn in ("range", "numba.prange", "prange"):
        used = {u(n) for a in it.args for n in ast.walk(a) if isinstance(n, (ast.Name, ast.Attribute))}
        # range() is evaluated once: the bound cannot grow during the loop
        return "CAP", "for over range(%s), evaluated once" % ", ".join(u(a) for a in it.args)
    if cn in ("count", "itertools.count"):
        # an endless counter: the loop needs an exit `if <target> >= bound: break / return` at the top level of its body (bound not assigned in the loop)
        if isinstance(loop.target, ast.Name):
            tv = loop.target.id
            for st in loop.body:
                if isinstance(st, ast.If) and _always_exits(st.body) and not st.orelse:
                    for dj in disjuncts(st.test):
                        b = _exit_compare(dj, tv)
                        if b is not None and not b.startswith("==") and b not in assigned:
                            return "CAP", "for over itertools.count with the exit `%s` (bound %s is not assigned in the loop)" % (u(dj), b)
        # no cap on the counter: `for i in itertools.count(k)` is `while True:` with `i += 1` as its first statement — classified as that loop
        if isinstance(loop.target, ast.Name) and idx is not None and not loop.orelse:
            import copy
            fnode = copy.deepcopy(f.node)
            par, target = None, None
            for n in ast.walk(fnode):
                for fld in ("body", "orelse", "finalbody"):
                    blk = getattr(n, fld, None)
                    if isinstance(blk, list):
                        for i_, x in enumerate(blk):
                            if isinstance(x, ast.For) and x.lineno == loop.lineno and x.col_offset == loop.col_offset:
                                par, target = (blk, i_), x
            if target is not None:
                inc = ast.copy_location(ast.AugAssign(target=ast.Name(id=loop.target.id, ctx=ast.Store()), op=ast.Add(), value=ast.Constant(value=1)), target)
                w = ast.copy_location(ast.While(test=ast.Constant(value=True), body=[inc] + target.body, orelse=[]), target)
                par[0][par[1]] = w
                ast.fix_missing_locations(fnode)
                g = copy.copy(f)
                g.node = fnode
                cls_, why = classify_while(w, g, idx)
                return cls_, "(`for %s in %s` read as `while True: %s += 1; ...`) %s" % (loop.target.id, u(it), loop.target.id, why)
        return None, "endless iterator `%s` without a top-level exit on the loop variable" % u(it)
    if cn in ("enumerate", "zip", "reversed", "sorted", "list", "tuple"):
        return "STRUCT", "for over %s(...)" % cn
    if isinstance(it, (ast.List, ast.Tuple)):
        return "STRUCT", "for over a literal of %d items" % len(it.elts)
    if isinstance(it, ast.Call) and isinstance(it.func, ast.Attribute) and it.func.attr in ("items", "keys", "values"):
        return "STRUCT", "for over dict.%s()" % it.func.attr
    if isinstance(it, (ast.Name, ast.Attribute, ast.Subscript)):
        base = u(it)
        # the container must not be extended while iterating
        grows = any((call_name(c) or "").startswith(base + ".") and (call_name(c) or "").split(".")[-1] in ("append", "extend", "insert", "add", "update")
                    for c in calls(loop.body))
        if grows:
            return None, "the iterated container %s is extended inside the loop" % base
        return "STRUCT", "for over the finite container %s" % base
    return None, "iterable `%s` not recognised" % u(it)


def _fixed_size_helper(idx, f, call):
    """the call resolves to a library function whose every return is a tuple / list literal: a finite sequence"""
    callee = idx.resolve_call(f.module, call, f.cls) if idx is not None else None
    fn = getattr(callee, "node", None)
    if not isinstance(fn, ast.FunctionDef):
        return None
    rets = [st for st in ast.walk(fn) if isinstance(st, ast.Return) and st.value is not None]
    if rets and all(isinstance(r.value, (ast.Tuple, ast.List)) for r in rets) and not any(isinstance(n, (ast.Yield, ast.YieldFrom)) for n in ast.walk(fn)):
        return len(rets[0].value.elts)
    if any(isinstance(n, (ast.Yield, ast.YieldFrom)) for n in ast.walk(fn)):
        # a generator terminates when all of its own loops do
        inner = [l for l in ast.walk(fn) if isinstance(l, (ast.For, ast.While))]
        if all(isinstance(l, ast.For) and classify_for(l, callee, idx)[0] is not None for l in inner):
            return -1
    return None


def _bound_compare(test, counter):
    """test (a Compare) bounds `counter` from above: returns bound text or None."""
    if not isinstance(test, ast.Compare) or len(test.ops) != 1:
        return None
    op, a, b = compare_triples(test)[0]
    if u(a) == counter and op in ("<", "<="):
        return u(b)
    if u(b) == counter and op in (">", ">="):
        return u(a)
    return None


def _exit_compare(test, counter):
    """test is true when counter reached the bound (exit condition)."""
    if not isinstance(test, ast.Compare) or len(test.ops) != 1:
        return None
    op, a, b = compare_triples(test)[0]
    if u(a) == counter and op in (">", ">="):
        return u(b)
    if u(b) == counter and op in ("<", "<="):
        return u(a)
    # counter == N is an exit for a counter that starts at a smaller integer constant and moves in steps of one (checked by the caller)
    if op == "==" and u(a) == counter and isinstance(const(b), int):
        return "==%d" % const(b)
    if op == "==" and u(b) == counter and isinstance(const(a), int):
        return "==%d" % const(a)
    return None


def _one_way_flag_continue(loop, cont, pm):
    """`continue` is accepted when its block clears a flag that (a) guards the block and (b) is never set to a true value
    anywhere in the loop."""
    blk_owner = pm.get(cont)
    chain = []
    cur = cont
    while cur is not loop and cur is not None:
        par = pm.get(cur)
        if isinstance(par, ast.If) and cur in par.body:
            chain.append(par)
        cur = par
    flags = set()
    for iff in chain:
        for cj in conjuncts(iff.test):
            if isinstance(cj, ast.Name):
                flags.add(cj.id)
    for flag in flags:
        # cleared on the way to this continue (in one of the enclosing if bodies, before the continue)
        cleared = False
        for iff in chain:
            for st in iter_stmts(iff.body):
                if isinstance(st, ast.Assign) and u(st.targets[0]) == flag and const(st.value) is False and st.lineno <= cont.lineno:
                    cleared = True
        if not cleared:
            continue
        # never set back
        set_back = False
        for st in iter_stmts(loop.body):
            if isinstance(st, ast.Assign):
                for t in st.targets:
                    for n in ast.walk(t):
                        if isinstance(n, ast.Name) and n.id == flag and const(st.value) is not False:
                            set_back = True
        if not set_back:
            return flag
    return None


def _flag_loop_normal_form(loop, f):
    """`while not flag: ...; flag = E`  (flag assigned once, as the last statement of the body)  is  `while True: ...; if E: break`.
    Returns (loop', f') on a copy of the function, or None."""
    import copy
    t = loop.test
    if not (isinstance(t, ast.UnaryOp) and isinstance(t.op, ast.Not) and isinstance(t.operand, ast.Name)):
        return None
    flag = t.operand.id
    stores = [n for b in loop.body for n in ast.walk(b) if isinstance(n, ast.Name) and n.id == flag and isinstance(n.ctx, ast.Store)]
    last = loop.body[-1] if loop.body else None
    if len(stores) != 1 or not (isinstance(last, ast.Assign) and len(last.targets) == 1 and isinstance(last.targets[0], ast.Name) and last.targets[0].id == flag):
        return None
    if isinstance(last.value, ast.Constant):
        return None
    fnode = copy.deepcopy(f.node)
    target = None
    for n in ast.walk(fnode):
        if isinstance(n, ast.While) and n.lineno == loop.lineno and n.col_offset == loop.col_offset:
            target = n
    if target is None:
        return None
    exit_if = ast.copy_location(ast.If(test=target.body[-1].value, body=[ast.copy_location(ast.Break(), target.body[-1])], orelse=[]), target.body[-1])
    target.body[-1] = exit_if
    target.test = ast.copy_location(ast.Constant(value=True), target.test)
    g = copy.copy(f)
    g.node = fnode
    return target, g


def _positive_threshold(b, f, idx):
    if isinstance(const(b), (int, float)) and const(b) >= 0:
        return True
    if isinstance(b, ast.Name):
        r = idx.resolve_name(f.module, b.id)
        val = r[1] if r and r[0] == "const" else None
        if isinstance(val, (int, float)) and val > 0:
            return True
        node = f.module.const_nodes.get(b.id)
        return node is not None and "EPSILON" in u(node)
    return False


def _potential_gain(func, test_if, hi, idx):
    """The gain `hi` of the test `K < hi` is a difference of POTENTIALS: hi = s_new - s_best where s_best is a carried local that the guarded block
    updates to s_new (`best_projection = projection`).  Then the accepted potential is a fixed floating-point number that strictly increases,
    and a finite state space cannot be cycled.  A gain that is recomputed from the pair (current, candidate) — dot(d, v[c] - v[best]) — is NOT such a
    difference: rounding can make every step of a cycle of tied states look like a gain (finding R)."""
    e = resolved(func.node, hi)
    if not (isinstance(e, ast.BinOp) and isinstance(e.op, ast.Sub) and isinstance(e.right, ast.Name)):
        return False
    carried, new = e.right.id, u(e.left)
    for st in iter_stmts(test_if.body):
        if any(u(t_) == carried and u(v_) == new for t_, v_ in assign_pairs(st)):
            return True
    return False


def _gain_guarded(func, stmt, pm, idx, stop_at):
    """stmt lies inside an `if X > K:` (K a positive constant, X a difference of potentials) within stop_at: returns the test text, the string
    'NOT-A-POTENTIAL: ...' when the threshold is there but the gain is recomputed from the pair of states, or None"""
    cur = stmt
    found = None
    while cur is not stop_at and cur in pm:
        par = pm[cur]
        if isinstance(par, ast.If) and cur in par.body and ncmp(par.test) is not None:
            op, lo, hi = ncmp(par.test)            # lo < hi
            if op == "<" and _positive_threshold(lo, func, idx):
                if _potential_gain(func, par, hi, idx):
                    return u(par.test)
                found = "NOT-A-POTENTIAL: " + u(par.test)
        cur = par
    return found


def _flag_sets(func, body, flag, cont_val, idx):
    """all assignments `flag = cont_val` in body are under a strict gain test; returns (ok, evidence list, n sets)"""
    pmf = parent_map(func.node)
    ev, n, ok = [], 0, True
    for st in iter_stmts(body):
        if isinstance(st, ast.Assign) and any(u(t) == flag for t in st.targets):
            v = const(st.value)
            if v is cont_val:
                n += 1
                g = _gain_guarded(func, st, pmf, idx, func.node)
                if g is None or g.startswith("NOT-A-POTENTIAL"):
                    ok = False
                    if g is not None:
                        ev.append(g)
                else:
                    ev.append(g)
            elif v is (not cont_val):
                continue
            else:
                ok = False
    return ok, ev, n


def _progress_flag(loop, f, idx, pm):
    t = loop.test
    flag, cont_val, exit_in_body = None, None, False
    if isinstance(t, ast.UnaryOp) and isinstance(t.op, ast.Not) and isinstance(t.operand, ast.Name):
        flag, cont_val = t.operand.id, False
    elif isinstance(t, ast.Name):
        flag, cont_val = t.id, True
    elif const(t) is True:
        # while True: ... if not F: return / break      (the exit test must be at the top level of the body)
        for st in loop.body:
            if isinstance(st, ast.If) and _always_exits(st.body) and not st.orelse:
                tt = st.test
                if isinstance(tt, ast.UnaryOp) and isinstance(tt.op, ast.Not) and isinstance(tt.operand, ast.Name):
                    flag, cont_val, exit_in_body = tt.operand.id, True, True
                elif isinstance(tt, ast.Name):
                    flag, cont_val, exit_in_body = tt.id, False, True
    if flag is None:
        return None
    stop_val = not cont_val
    # (a) the flag is reset to the stop value at the start of every round and set to the continue value only under a gain test
    first = loop.body[0] if loop.body else None
    reset = isinstance(first, ast.Assign) and any(u(t_) == flag for t_ in first.targets) and const(first.value) is stop_val
    if reset:
        ok, ev, n = _flag_sets(f, loop.body, flag, cont_val, idx)
        if ok and n >= 1:
            return "PROGRESS", "progress flag %s: reset at the start of every round, set to continue only when %s (strict increase of a carried per-state potential over a finite vertex set)" % (flag, "; ".join(sorted(set(ev))))
        bad = [e_ for e_ in ev if e_.startswith("NOT-A-POTENTIAL")]
        if bad:
            return None, ("the loop continues on `%s`, a gain recomputed from the pair (current state, candidate) instead of the difference of two stored per-state "
                          "potentials: for states that tie up to rounding every step of a cycle can look like a gain, and the loop never ends" % bad[0][17:])
        return None
    # (b) the flag is the result of a helper that reports whether it moved:  x, F = helper(...)
    asg = [st for st in loop.body if isinstance(st, ast.Assign) and isinstance(st.value, ast.Call)
           and any(isinstance(t_, ast.Tuple) and any(u(e) == flag for e in t_.elts) for t_ in st.targets)]
    others = [st for st in iter_stmts(loop.body) if isinstance(st, (ast.Assign, ast.AugAssign)) and st not in asg
              and any(isinstance(n_, ast.Name) and n_.id == flag and isinstance(n_.ctx, ast.Store) for n_ in ast.walk(st))]
    if len(asg) == 1 and not others and cont_val is True:
        pos = [i for i, e in enumerate(asg[0].targets[0].elts) if u(e) == flag][0]
        callee = idx.resolve_call(f.module, asg[0].value, f.cls)
        fn = getattr(callee, "node", None)
        if isinstance(fn, ast.FunctionDef):
            rets = [st for st in ast.walk(fn) if isinstance(st, ast.Return) and isinstance(st.value, ast.Tuple) and len(st.value.elts) > pos]
            names = {u(r.value.elts[pos]) for r in rets}
            if rets and len(names) == 1 and isinstance(rets[0].value.elts[pos], ast.Name):
                hflag = names.pop()
                inits = [st for st in fn.body if isinstance(st, ast.Assign) and any(u(t_) == hflag for t_ in st.targets)]
                ok, ev, n = _flag_sets(callee, fn.body, hflag, True, idx)
                inner_ok = all(isinstance(l, ast.For) and classify_for(l, callee, idx)[0] is not None for l in ast.walk(fn) if isinstance(l, (ast.For, ast.While)))
                if inits and const(inits[0].value) is False and ok and n >= 1 and inner_ok:
                    return "PROGRESS", "progress flag %s = result of %s(...), which reports True only when %s (strict gain over a finite vertex set)" % (flag, callee.name, "; ".join(sorted(set(ev))))
    return None


def _state_loop_normal_form(loop, f):
    """`X = C; while X == C: body`  (C an enum member / constant, X assigned C directly in front of the loop)  is  `while True: body; if X != C: break`"""
    import copy
    t = loop.test
    if not (isinstance(t, ast.Compare) and len(t.ops) == 1 and isinstance(t.ops[0], ast.Eq) and isinstance(t.left, ast.Name)
            and isinstance(t.comparators[0], (ast.Attribute, ast.Constant))):
        return None
    pm = parent_map(f.node)
    par = pm.get(loop)
    prev = None
    for fld in ("body", "orelse"):
        blk = getattr(par, fld, None)
        if isinstance(blk, list) and loop in blk and blk.index(loop) > 0:
            prev = blk[blk.index(loop) - 1]
    if not (isinstance(prev, ast.Assign) and any(u(t_) == t.left.id for t_ in prev.targets) and u(prev.value) == u(t.comparators[0])):
        return None
    fnode = copy.deepcopy(f.node)
    target = None
    for n in ast.walk(fnode):
        if isinstance(n, ast.While) and n.lineno == loop.lineno and n.col_offset == loop.col_offset:
            target = n
    if target is None or target.orelse:
        return None
    exit_if = ast.If(test=ast.Compare(left=copy.deepcopy(t.left), ops=[ast.NotEq()], comparators=[copy.deepcopy(t.comparators[0])]), body=[ast.Break()], orelse=[])
    last = target.body[-1]
    ast.copy_location(exit_if, last)
    for n in ast.walk(exit_if):
        ast.copy_location(n, last)
    target.body.append(exit_if)
    target.test = ast.copy_location(ast.Constant(value=True), target.test)
    g = copy.copy(f)
    g.node = fnode
    return target, g


def _sentinel_loop_normal_form(loop, f):
    """`X = None; while X is None: BODY; return X`, where X is assigned (a non-None value) only as the LAST statement of leaves of the if / else tree that ends
    BODY, is `while True: BODY'` with those assignments turned into `return <value>` — the single-exit spelling of a loop with early returns."""
    import copy
    t = loop.test
    if not (isinstance(t, ast.Compare) and len(t.ops) == 1 and isinstance(t.ops[0], (ast.Is, ast.Eq)) and isinstance(t.left, ast.Name)
            and isinstance(t.comparators[0], ast.Constant) and t.comparators[0].value is None) or loop.orelse:
        return None
    X = t.left.id
    pm = parent_map(f.node)
    par = pm.get(loop)
    blk = None
    for fld in ("body", "orelse"):
        b = getattr(par, fld, None)
        if isinstance(b, list) and loop in b:
            blk = b
    if blk is None:
        return None
    i = blk.index(loop)
    if i == 0 or i + 1 >= len(blk):
        return None
    prev, nxt = blk[i - 1], blk[i + 1]
    if not (isinstance(prev, ast.Assign) and any(u(t_) == X for t_ in prev.targets) and isinstance(prev.value, ast.Constant) and prev.value.value is None):
        return None
    if not (isinstance(nxt, ast.Return) and isinstance(nxt.value, ast.Name) and nxt.value.id == X):
        return None
    fnode = copy.deepcopy(f.node)
    target = None
    for n in ast.walk(fnode):
        if isinstance(n, ast.While) and n.lineno == loop.lineno and n.col_offset == loop.col_offset:
            target = n
    if target is None:
        return None
    replaced = [0]

    def tail(stmts):
        if not stmts:
            return
        last = stmts[-1]
        if isinstance(last, ast.Assign) and len(last.targets) == 1 and u(last.targets[0]) == X and not (isinstance(last.value, ast.Constant) and last.value.value is None):
            stmts[-1] = ast.copy_location(ast.Return(value=last.value), last)
            replaced[0] += 1
        elif isinstance(last, ast.If):
            tail(last.body)
            tail(last.orelse)
    tail(target.body)
    stores = [n for n in ast.walk(target) if isinstance(n, ast.Name) and n.id == X and isinstance(n.ctx, ast.Store)]
    if not replaced[0] or stores:
        return None
    target.test = ast.copy_location(ast.Constant(value=True), target.test)
    ast.fix_missing_locations(fnode)
    g = copy.copy(f)
    g.node = fnode
    return target, g


def _snapshot_loop_normal_form(loop, f):
    """`while True: s0 = s; SWEEP; if s == s0: return ...` — leave when a whole sweep did not change the state — is the progress-flag loop
    `while True: improved = False; SWEEP (improved = True next to every assignment of s); if not improved: return ...`.  The two agree when every assignment of s
    in the sweep changes it, which is what the PROGRESS class demands anyway (acceptance only on a strict gain of a carried potential)."""
    import copy
    if not (const(loop.test) is True or u(loop.test) == "True") or loop.orelse or len(loop.body) < 3:
        return None
    first = loop.body[0]
    if not (isinstance(first, ast.Assign) and len(first.targets) == 1 and isinstance(first.targets[0], ast.Name) and isinstance(first.value, ast.Name)):
        return None
    s0, s_ = first.targets[0].id, first.value.id
    exits = [st for st in loop.body[1:] if isinstance(st, ast.If) and not st.orelse and _always_exits(st.body) and isinstance(st.test, ast.Compare) and len(st.test.ops) == 1
             and isinstance(st.test.ops[0], ast.Eq) and {u(st.test.left), u(st.test.comparators[0])} == {s0, s_}]
    if len(exits) != 1:
        return None
    if sum(1 for n in ast.walk(loop) if isinstance(n, ast.Name) and n.id == s0 and isinstance(n.ctx, ast.Store)) != 1:
        return None
    fnode = copy.deepcopy(f.node)
    target = None
    for n in ast.walk(fnode):
        if isinstance(n, ast.While) and n.lineno == loop.lineno and n.col_offset == loop.col_offset:
            target = n
    if target is None:
        return None
    FLAG = "improved__nf"

    def mark(stmts):
        out = []
        for st in stmts:
            for fld in ("body", "orelse"):
                b = getattr(st, fld, None)
                if isinstance(b, list) and b and isinstance(b[0], ast.stmt):
                    setattr(st, fld, mark(b))
            out.append(st)
            if isinstance(st, ast.Assign) and any(isinstance(t_, ast.Name) and t_.id == s_ for t_ in st.targets):
                out.append(ast.copy_location(ast.Assign(targets=[ast.Name(id=FLAG, ctx=ast.Store())], value=ast.Constant(value=True)), st))
        return out
    body = mark(target.body[1:])
    for st in body:
        if isinstance(st, ast.If) and isinstance(st.test, ast.Compare) and {u(st.test.left), u(st.test.comparators[0])} == {s0, s_} and not st.orelse:
            st.test = ast.copy_location(ast.UnaryOp(op=ast.Not(), operand=ast.Name(id=FLAG, ctx=ast.Load())), st.test)
    target.body = [ast.copy_location(ast.Assign(targets=[ast.Name(id=FLAG, ctx=ast.Store())], value=ast.Constant(value=False)), target.body[0])] + body
    ast.fix_missing_locations(fnode)
    g = copy.copy(f)
    g.node = fnode
    return target, g


def classify_while(loop, f, idx):
    sp = _snapshot_loop_normal_form(loop, f)
    if sp is not None:
        cls_, why = classify_while(sp[0], sp[1], idx)
        return cls_, "(`s0 = s; sweep; if s == s0: leave` read as the progress-flag loop) " + why
    sn = _sentinel_loop_normal_form(loop, f)
    if sn is not None:
        cls_, why = classify_while(sn[0], sn[1], idx)
        return cls_, ("(`%s = None; while %s is None: ...; return %s` read as the loop with early returns) " % (loop.test.left.id, loop.test.left.id, loop.test.left.id)) + why
    sf = _state_loop_normal_form(loop, f)
    if sf is not None:
        cls_, why = classify_while(sf[0], sf[1], idx)
        return cls_, ("(`while %s` after `%s = %s` read as `while True: ... if %s: break`) " % (u(loop.test), loop.test.left.id, u(loop.test.comparators[0]), "not " + u(loop.test))) + why
    nf = _flag_loop_normal_form(loop, f)
    if nf is not None:
        cls_, why = classify_while(nf[0], nf[1], idx)
        return cls_, ("(flag loop `while not %s` read as `while True: ... if <%s>: break`) " % (loop.test.operand.id, loop.test.operand.id)) + why
    pm = parent_map(f.node)
    body_sts = list(iter_stmts(loop.body))
    # ---------------- counters
    counters = {}
    for st in body_sts:
        if isinstance(st, ast.AugAssign) and isinstance(st.op, ast.Add) and isinstance(const(st.value), (int, float)) and const(st.value) > 0:
            counters.setdefault(u(st.target), []).append(st)
    decs = {}
    for st in body_sts:
        if isinstance(st, ast.AugAssign) and isinstance(st.op, ast.Sub):
            decs.setdefault(u(st.target), []).append(st)
        if isinstance(st, ast.Assign):
            for t in st.targets:
                if u(t) in counters:
                    decs.setdefault(u(t), []).append(st)
    for c, incs in counters.items():
        # where is the bound tested?
        bound = None
        how = ""
        for cj in conjuncts(loop.test):
            b = _bound_compare(cj, c)
            if b is not None:
                bound, how = b, "loop test `%s`" % u(cj)
        exit_pos = None
        if bound is None:
            # exit-if in the body: if c >= B: break/return ; possibly via a local boolean
            local_bools = {st.targets[0].id: st.value for st in body_sts if isinstance(st, ast.Assign) and isinstance(st.targets[0], ast.Name)}
            for st in body_sts:
                if isinstance(st, ast.If) and any(isinstance(s, (ast.Break, ast.Return)) for s in st.body):
                    t = st.test
                    if isinstance(t, ast.Name) and t.id in local_bools:
                        t = local_bools[t.id]
                    for dj in disjuncts(t):
                        b = _exit_compare(dj, c)
                        if b is not None and b.startswith("=="):
                            # equality exit: sound only for a unit-step counter that starts below the bound
                            inits = [s_ for s_ in ast.walk(f.node) if isinstance(s_, ast.Assign) and any(u(t_) == c for t_ in s_.targets) and s_.lineno < loop.lineno]
                            unit = all(const(i_.value) == 1 for i_ in incs) and len(incs) == 1
                            if not (unit and inits and isinstance(const(inits[-1].value), int) and const(inits[-1].value) < int(b[2:])):
                                b = None
                        if b is not None:
                            # the exit must leave the loop on every path of the if body
                            last = st.body[-1]
                            if isinstance(last, (ast.Break, ast.Return)):
                                bound, how = b, "exit test `%s`" % u(dj)
                                exit_pos = _top_level_position(loop, st, pm)
        if bound is None:
            continue
        if c in decs:
            continue   # handled by the shrink detector
        # bound not increased inside the loop
        bn = {n for n in [bound]}
        if any(bound == a or bound in a for a in _assigned_names(loop.body) if a == bound):
            continue
        # increment on every path to the back edge: an increment at the top level of the loop body
        top = [st for st in incs if st in loop.body]
        if not top:
            continue
        inc = top[-1]
        pos = loop.body.index(inc)
        bad_continue = None
        flags = []
        for st in body_sts:
            if isinstance(st, ast.Continue):
                # only continues of THIS loop (not of nested loops)
                owner = pm.get(st)
                while owner is not None and not isinstance(owner, (ast.While, ast.For)):
                    owner = pm.get(owner)
                if owner is not loop:
                    continue
                p = _top_level_position(loop, st, pm)
                if p is not None and p < pos:
                    fl = _one_way_flag_continue(loop, st, pm)
                    if fl is None:
                        bad_continue = st
                    else:
                        flags.append(fl)
        if bad_continue is not None:
            return None, "a `continue` at line %d skips the increment of %s without clearing a one-way flag" % (bad_continue.lineno, c)
        extra = (", %d continue path(s) skip the increment but clear the one-way flag %s" % (len(flags), sorted(set(flags)))) if flags else ""
        return "CAP", "counter %s, bound %s (%s), incremented at the top level of the body%s" % (c, bound, how, extra)
    # ---------------- stack traversal
    tnames = [n.id for n in ast.walk(loop.test) if isinstance(n, ast.Name)]
    ttxt = u(loop.test).replace(" ", "")
    for s in tnames:
        if ttxt in ("len(%s)!=0" % s, "len(%s)>0" % s, s, "len(%s)" % s):
            shortened_at = None
            for i, st in enumerate(loop.body):
                if isinstance(st, ast.Assign) and u(st.targets[0]) == s and u(st.value) == s + "[:-1]":
                    shortened_at = i
                if any((call_name(c) or "") == s + ".pop" for c in calls(st)):
                    shortened_at = i if shortened_at is None else shortened_at
            first_push = None
            for i, st in enumerate(loop.body):
                if any((call_name(c) or "") in (s + ".extend", s + ".append") for c in calls(st)):
                    first_push = i if first_push is None else first_push
            if shortened_at is not None and (first_push is None or shortened_at < first_push):
                return "STRUCT", "stack traversal: %s is popped at the top of every iteration, pushes are child links (acyclicity: R-LINKS)" % s
    # ---------------- link walk
    walk_var = None
    if isinstance(loop.test, ast.Compare) and len(loop.test.ops) == 1:
        op, a, b = compare_triples(loop.test)[0]
        assigned_in_body = _assigned_names(loop.body)
        for x in (a, b):
            if isinstance(x, ast.Name) and x.id in assigned_in_body:
                walk_var = x.id
            elif isinstance(x, ast.Subscript):
                el = index_elts(x)
                if el and isinstance(el[0], ast.Name) and el[0].id in assigned_in_body:
                    walk_var = el[0].id
    if walk_var is not None:
        steps = [st for st in body_sts if isinstance(st, ast.Assign) and u(st.targets[0]) == walk_var]
        if steps:
            rowalias = {st.targets[0].id for st in loop.body if isinstance(st, ast.Assign) and isinstance(st.targets[0], ast.Name)
                        and isinstance(st.value, ast.Subscript) and u(st.value.slice) == walk_var}
            link_locals = {st.targets[0].id for st in body_sts if isinstance(st, ast.Assign) and isinstance(st.targets[0], ast.Name)
                           and isinstance(st.value, ast.Subscript) and walk_var in u(st.value.slice)}

            def is_link(v):
                if isinstance(v, ast.Subscript):
                    if walk_var in u(v.slice):
                        return True
                    if isinstance(v.value, ast.Name) and v.value.id in rowalias:
                        return True
                if isinstance(v, ast.Name) and v.id in link_locals:
                    return True
                return False
            if all(is_link(st.value) for st in steps):
                # every path reassigns: at least one step at top level or in an if/else covering both branches
                return "STRUCT", "link walk: %s moves along a stored link of the tree arrays on every iteration" % walk_var
    # ---------------- shrink scan, path form:  while i < X.n:  every path through the body either removes one element (a callee decrements the
    #                  bound) without moving i backwards on balance, or advances i: the variant X.n - i drops on every path
    if ncmp(loop.test) is not None and ncmp(loop.test)[0] == "<" and isinstance(ncmp(loop.test)[1], ast.Name) and isinstance(ncmp(loop.test)[2], ast.Attribute):
        cvar, bound = ncmp(loop.test)[1].id, ncmp(loop.test)[2]
        battr = bound.attr

        def decrements_bound(call):
            if not isinstance(call.func, ast.Attribute):
                return False
            for m in idx.lib_modules():
                for ci in m.classes.values():
                    callee = ci.methods.get(call.func.attr)
                    if callee is not None:
                        for st in iter_stmts(callee.node.body):
                            if isinstance(st, ast.AugAssign) and isinstance(st.op, ast.Sub) and const(st.value) == 1 and u(st.target) == "self." + battr:
                                return True
            return False

        def paths(body):
            """list of (net change of the counter, number of removals) or None when something is not understood"""
            out = [(0, 0)]
            for st in body:
                if isinstance(st, ast.If):
                    pa, pb = paths(st.body), paths(st.orelse)
                    if pa is None or pb is None:
                        return None
                    out = [(d + d2, r + r2) for d, r in out for d2, r2 in pa + pb] if False else \
                        [(d + d2, r + r2) for d, r in out for d2, r2 in pa] + [(d + d2, r + r2) for d, r in out for d2, r2 in pb]
                elif isinstance(st, ast.AugAssign) and u(st.target) == cvar and isinstance(const(st.value), int) and isinstance(st.op, (ast.Add, ast.Sub)):
                    k = const(st.value) * (1 if isinstance(st.op, ast.Add) else -1)
                    out = [(d + k, r) for d, r in out]
                elif any(isinstance(n, ast.Name) and n.id == cvar and isinstance(n.ctx, ast.Store) for n in ast.walk(st)):
                    return None
                elif isinstance(st, (ast.Break, ast.Return, ast.Continue, ast.While, ast.For)):
                    return None
                else:
                    rem = sum(1 for c in calls(st) if decrements_bound(c))
                    out = [(d, r + rem) for d, r in out]
            return out
        ps = paths(loop.body)
        if ps and any(r for d, r in ps) and all((-r - d) < 0 and d >= (0 if r else 1) for d, r in ps):
            return "STRUCT", "shrink scan: on every path through the body either one element is removed (the callee decrements %s) with the position kept, or %s advances: the variant %s - %s drops" % (u(bound), cvar, u(bound), cvar)
    # ---------------- shrink scan (EPA face removal):  while i < X.n: if c: remove(i); i -= 1 ... i += 1
    if ncmp(loop.test) is not None:
        op, a, b = ncmp(loop.test)
        c = u(a)
        if op == "<" and c in counters and c in decs:
            top_inc = [st for st in counters[c] if st in loop.body]
            dec_ok = True
            for d in decs[c]:
                if not (isinstance(d, ast.AugAssign) and const(d.value) == 1):
                    dec_ok = False
                    continue
                blk = pm.get(d)
                # the same block must call a method that decrements the bound
                ok = False
                if isinstance(blk, ast.If):
                    for call in calls(blk.body):
                        callee = None
                        if isinstance(call.func, ast.Attribute):
                            # resolve by method name over the package classes
                            for m in idx.lib_modules():
                                for ci in m.classes.values():
                                    if call.func.attr in ci.methods:
                                        callee = ci.methods[call.func.attr]
                                        battr = u(b).split(".")[-1]
                                        for st in iter_stmts(callee.node.body):
                                            if isinstance(st, ast.AugAssign) and isinstance(st.op, ast.Sub) and const(st.value) == 1 and u(st.target) == "self." + battr:
                                                ok = True
                if not ok:
                    dec_ok = False
            if top_inc and dec_ok and loop.body[-1] is top_inc[-1]:
                return "STRUCT", "shrink scan: every iteration either advances %s or removes one element (bound %s is decremented by the callee): the variant %s - %s drops by one" % (c, u(b), u(b), c)
    # ---------------- progress flag, general form: the loop goes round again only if, during the round, a STRICT gain over a positive constant was
    #                  seen.  Recognised however the flag is organised: `while not converged` (reset to True, cleared on gain), `while improved`
    #                  (assigned from a helper that reports whether it moved), `while True: improved = False ... if not improved: return`.
    pf = _progress_flag(loop, f, idx, pm)
    if pf is not None and pf[0] is not None:
        return pf
    pf_reason = pf[1] if pf is not None else None
    # ---------------- while True families
    if const(loop.test) is True or u(loop.test) == "True":
        # state progress: continue iff state == X.Unknown where state comes from a helper
        for st in body_sts:
            if isinstance(st, ast.If) and isinstance(st.test, ast.Compare):
                op, a, b = compare_triples(st.test)[0]
                if op in ("==", "!=") and isinstance(b, ast.Attribute) and isinstance(a, ast.Name):
                    state, enumv = a.id, u(b)
                    src = [s for s in body_sts if isinstance(s, ast.Assign) and isinstance(s.targets[0], ast.Tuple) and u(s.targets[0].elts[0]) == state and isinstance(s.value, ast.Call)]
                    if not src:
                        continue
                    helper = idx.resolve_call(f.module, src[0].value, f.cls)
                    if helper is None:
                        continue
                    # the non-continue branch must leave the loop
                    leave = st.orelse if op == "==" else st.body
                    stay = st.body if op == "==" else st.orelse
                    if not leave or not all(_always_exits(x) for x in [leave]):
                        continue
                    ok, why = _helper_progress(helper, enumv)
                    if ok:
                        # the carried value must be carried by THIS loop too: the variable handed to the helper as `prev` is re-bound, from the slot in which
                        # the helper returns the updated value, by the same statement
                        fb = _fed_back(src[0], helper, enumv)
                        if fb is not None:
                            return None, "state loop over %s: %s" % (helper.name, fb)
                        return "PROGRESS", "continues only while %s(...) returns %s; %s" % (helper.name, enumv, why)
                    return None, "state loop over %s: %s" % (helper.name, why)
        # compare progress (original GJK)
        for st in loop.body:
            if isinstance(st, ast.If):
                t = st.test
                locs = {s.targets[0].id: s.value for s in loop.body if isinstance(s, ast.Assign) and isinstance(s.targets[0], ast.Name)}
                terms = []
                for dj in disjuncts(t):
                    terms.append(locs.get(dj.id, dj) if isinstance(dj, ast.Name) else dj)
                cmp_ = [x for x in terms if ncmp(x) is not None and ncmp(x)[0] == "<=" and isinstance(ncmp(x)[1], ast.Attribute) and isinstance(ncmp(x)[2], ast.Attribute)]
                if not cmp_:
                    continue
                op, b, a = ncmp(cmp_[0])     # old <= new
                new_, old_ = u(a), u(b)
                # exit branch: return, or set a one-way flag
                rets = [s for s in iter_stmts(st.body) if isinstance(s, ast.Return)]
                flagsets = [s for s in iter_stmts(st.body) if isinstance(s, ast.Assign) and const(s.value) is True and isinstance(s.targets[0], ast.Name)]
                # continue branch updates the carried value: old_base = new_base
                ob, nb = old_.split(".")[0], new_.split(".")[0]
                upd = [s for s in iter_stmts(st.orelse) if isinstance(s, ast.Assign) and u(s.targets[0]) == ob and u(s.value) == nb]
                if rets and upd and flagsets:
                    flag = flagsets[0].targets[0].id
                    guard = [s for s in iter_stmts(st.body) if isinstance(s, ast.If) and u(s.test) == flag and any(isinstance(x, ast.Return) for x in s.body)]
                    resets = [s for s in body_sts if isinstance(s, ast.Assign) and any(u(t_) == flag for t_ in s.targets) and const(s.value) is False]
                    if guard and not resets:
                        return "PROGRESS", "exits when `%s` (non-improvement including equality) once the one-way flag %s is set; the continue path updates %s = %s" % (u(cmp_[0]), flag, ob, nb)
        # tolerance
        exits = [st for st in body_sts if isinstance(st, ast.If) and (any(isinstance(s, ast.Return) for s in st.body) or any(isinstance(s, ast.Return) for s in st.orelse))]
        tol_params = [p for p in f.params() if "tolerance" in p or "epsilon" in p]
        _bools = {}
        for st_ in body_sts:
            if isinstance(st_, ast.Assign) and len(st_.targets) == 1 and isinstance(st_.targets[0], ast.Name):
                _bools.setdefault(st_.targets[0].id, []).append(st_.value)

        def _test_names(t_):
            """names in a test, reading a local boolean (`can_expand = A and not B`) through its single definition"""
            out = set()
            for n_ in ast.walk(t_):
                if isinstance(n_, ast.Name):
                    out.add(n_.id)
                    if len(_bools.get(n_.id, ())) == 1:
                        out |= {m_.id for m_ in ast.walk(_bools[n_.id][0]) if isinstance(m_, ast.Name)}
            return out

        def _on_spine(st_):
            """reached on every iteration that has not left the loop before: in the loop body, or in the arm of a spine `if` whose other arm always exits"""
            blk_ = loop.body
            while True:
                if st_ in blk_:
                    return True
                nxt_ = None
                for x_ in blk_:
                    if isinstance(x_, ast.If):
                        if _always_exits(x_.body) and any(st_ is y_ for y_ in ast.walk(ast.Module(body=x_.orelse, type_ignores=[]))):
                            nxt_ = x_.orelse
                        elif x_.orelse and _always_exits(x_.orelse) and any(st_ is y_ for y_ in ast.walk(ast.Module(body=x_.body, type_ignores=[]))):
                            nxt_ = x_.body
                if nxt_ is None:
                    return False
                blk_ = nxt_
        uses_tol = [st for st in exits if any(p in _test_names(st.test) for p in tol_params)]
        if uses_tol and all(_on_spine(st) for st in uses_tol):
            return "TOLERANCE", "no cap; exit test `%s` against the caller's tolerance is evaluated on every iteration (termination not proved)" % u(uses_tol[0].test)[:80]
    return None, (pf_reason or "no exit discipline recognised")


def _always_exits(body):
    if not body:
        return False
    last = body[-1]
    if isinstance(last, (ast.Return, ast.Break, ast.Raise)):
        return True
    if isinstance(last, ast.If):
        return _always_exits(last.body) and _always_exits(last.orelse)
    return False


def _fed_back(call_stmt, helper, enumv):
    """None when the caller's statement `..., X, ... = helper(..., X, ...)` re-binds the variable it passes as the helper's carried parameter from the slot in
    which the helper returns it; else the reason"""
    body = helper.node.body
    rets = [st for st in body if isinstance(st, ast.Return) and isinstance(st.value, ast.Tuple) and u(st.value.elts[0]) == enumv]
    if len(rets) != 1:
        return None
    params = helper.params()
    call = call_stmt.value
    targets = call_stmt.targets[0].elts
    if call.keywords or len(call.args) != len(params) or len(targets) != len(rets[0].value.elts):
        return None
    for k, e in enumerate(rets[0].value.elts):
        if isinstance(e, ast.Name) and e.id in params:
            # a parameter handed back (possibly updated): carried state.  Only the one the progress test reads matters
            prog_names = set()
            for st in body:
                if isinstance(st, ast.If) and ncmp(st.test) is not None and ncmp(st.test)[0] == "<=" and any(isinstance(s_, ast.Return) for s_ in st.body):
                    prog_names |= {n.id for n in ast.walk(st.test) if isinstance(n, ast.Name)}
            if e.id not in prog_names:
                continue
            arg = call.args[params.index(e.id)]
            tgt = targets[k]
            if isinstance(arg, ast.Name) and not (isinstance(tgt, ast.Name) and tgt.id == arg.id):
                return ("the helper compares against its parameter `%s` and hands the updated value back in slot %d, but the loop passes `%s` and binds that slot to `%s`: "
                        "`%s` never changes, the relative-progress exit compares with a constant and cannot fire" % (e.id, k, arg.id, u(tgt), arg.id))
    return None


def _helper_progress(helper, enumv):
    """Every `return <enumv>, ...` of the helper is dominated by a relative-progress exit and the update prev = cur."""
    body = helper.node.body
    rets = [(i, st) for i, st in enumerate(body) if isinstance(st, ast.Return) and st.value is not None and
            (u(st.value.elts[0]) if isinstance(st.value, ast.Tuple) else u(st.value)) == enumv]
    nested = [st for st in iter_stmts(body) if isinstance(st, ast.Return) and st not in body and st.value is not None and
              (u(st.value.elts[0]) if isinstance(st.value, ast.Tuple) else u(st.value)) == enumv]
    if nested:
        return False, "the helper returns %s from a nested branch at line %d (not after the progress test)" % (enumv, nested[0].lineno)
    if len(rets) != 1:
        return False, "expected exactly one top-level `return %s`" % enumv
    ri, rst = rets[0]
    prog = None
    for i, st in enumerate(body[:ri]):
        if isinstance(st, ast.If) and ncmp(st.test) is not None and any(isinstance(s, ast.Return) for s in st.body):
            op, a, b = ncmp(st.test)
            # prev - cur <= K * prev      (non-strict: equality exits)
            if op == "<=" and isinstance(a, ast.BinOp) and isinstance(a.op, ast.Sub) and isinstance(b, ast.BinOp) and isinstance(b.op, ast.Mult):
                prev, cur = u(a.left), u(a.right)
                if prev in (u(b.left), u(b.right)):
                    prog = (i, prev, cur, u(st.test))
            # prev <= cur
            elif op == "<=" and isinstance(a, ast.Name) and isinstance(b, ast.Name):
                prog = (i, u(a), u(b), u(st.test))
    if prog is None:
        return False, "no relative-progress exit `prev - cur <= eps * prev` (non-strict) before `return %s`" % enumv
    pi, prev, cur, txt = prog
    upd = [i for i, st in enumerate(body[pi + 1:ri], pi + 1) if any(u(t_) == prev and u(v_) == cur for t_, v_ in assign_pairs(st))]
    if not upd:
        return False, "the carried value %s is not updated (%s = %s) between the progress test and `return %s`" % (prev, prev, cur, enumv)
    # nothing between the test and the return may raise cur again... (cur is only read)
    return True, "the helper returns it only after the non-strict progress exit `%s` and the update %s = %s" % (txt, prev, cur)


def classify(loop, f, idx):
    if isinstance(loop, ast.For):
        return classify_for(loop, f, idx)
    return classify_while(loop, f, idx)
