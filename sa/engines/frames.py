"""E2 — coordinate-frame inference.

Abstract values: Pose(a->b), Rot(a->b), Vec(f) (point / direction / bound expressed in frame f), Comp(f) (scalar component
of a frame-f vector), Adj(a->b) (adjoint of a pose), Wrench(f), Free (sizes, scalars, literals: unify with anything),
tuples, None (unknown).  Frames are symbols harvested from the `<x>2<y>` and `*_in_<x>` naming convention; 'world' is
an alias of 'origin'.  Flow sensitive, context sensitive for private helpers (evaluated with the call site's values).
A violation is two KNOWN different frames meeting, a rotation applied to a vector of the wrong frame, or a value bound
to a name / returned from a public function whose declared frame differs from the inferred one.
"""
import ast
import re

from ..core.astutil import u, call_name, const, index_elts, iter_stmts, dot_args, stable_text
from ..core.index import FuncInfo, ClassInfo, numpydoc_params

_POSE_RE = re.compile(r"^(?P<a>[A-Za-z](?:[A-Za-z_]*?[A-Za-z0-9])?)2(?P<b>[A-Za-z][A-Za-z_0-9]*?)_?$")
NOT_POSE_WORDS = ("adjoint", "wrench", "m2b2", "radii2", "point2")
VEC_WORDS = ("point", "center", "direction", "normal", "start", "end", "vertices", "vertex", "axes", "axis", "translation", "position",
             "mins", "maxs", "com", "support", "closest")
FREE_WORDS = ("radius", "radii", "size", "length", "lengths", "height", "half", "epsilon", "tolerance", "margin", "max_", "n_", "signed",
              "triangles", "tetrahedra_", "potentials", "order", "resolution", "youngs")
LOCAL_DATA_WORDS = ("vertices", "vertices_")   # shape definition data stored in the shape's own frame when the shape has a pose


def norm_frame(f):
    if f is None:
        return None
    f = f.strip("_")
    if f.endswith("_frame") and len(f) > 6:
        f = f[:-6]                       # points_in_box_frame: the frame is `box`
    f = re.sub(r"_i\d+$", "", f)         # point_in_box_i12: components i1, i2 of a quantity in frame `box`
    return "origin" if f in ("world", "origin") else f


def pose_frames(name):
    """'box2origin' -> ('box', 'origin'); 'A2B' -> ('A', 'B'); None when the name is not a pose name."""
    n = name.lstrip("_")
    low = n.lower()
    if any(w in low for w in NOT_POSE_WORDS):
        return None
    if n in ("pose",):
        return ("collider", "origin")
    m = _POSE_RE.match(n)
    if not m:
        return None
    a, b = m.group("a"), m.group("b")
    if re.search(r"\d$", a) and re.match(r"^\d", b):
        return None
    if not re.search(r"[A-Za-z]{1}", a) or not re.search(r"[A-Za-z]", b):
        return None
    if len(a) == 1 and a.islower():
        return None    # e213-like temporaries, m2b2 ...
    return (norm_frame(a), norm_frame(b))


def in_frame(name):
    """'point_in_box' -> 'box'; only for names whose head is a vector-like word (diff_in_plane is not a frame statement)."""
    m = re.search(r"^(?P<head>.+)_in_(?P<f>[A-Za-z][A-Za-z0-9_]*)$", name)
    if not m:
        return None
    head = m.group("head").lower()
    if not any(w in head for w in VEC_WORDS + ("wrench", "force", "torque")):
        return None
    return norm_frame(m.group("f"))


class FV:
    """aff (vectors only): 'P' position, 'D' direction/offset, 'T' translation of a pose (a position that remembers its pose),
    'RP' rotated position still lacking the translation, 'RT' rotated translation, 'DB' offset from a frame origin; None unknown."""
    __slots__ = ("kind", "a", "b", "elts", "aff", "rows", "base")

    def __init__(self, kind, a=None, b=None, elts=None, aff=None, rows=False, base=None):
        self.kind, self.a, self.b, self.elts = kind, a, b, elts
        self.aff, self.rows, self.base = aff, rows, base

    def __repr__(self):
        if self.kind in ("pose", "rot", "adj", "adjT"):
            return "%s(%s->%s)" % (self.kind.capitalize(), self.a, self.b)
        if self.kind == "vec":
            return "Vec(%s%s)" % (self.a, ":" + self.aff if self.aff else "")
        if self.kind in ("comp", "wrench"):
            return "%s(%s)" % (self.kind.capitalize(), self.a)
        if self.kind == "tuple":
            return "Tuple%s" % (tuple(self.elts),)
        return self.kind.capitalize()

    def __eq__(self, o):
        return isinstance(o, FV) and (self.kind, self.a, self.b) == (o.kind, o.a, o.b) and (self.elts or []) == (o.elts or [])

    def __hash__(self):
        return hash((self.kind, self.a, self.b))


FREE = FV("free")


def Vec(f, aff=None, rows=False, base=None):
    return FV("vec", norm_frame(f), aff=aff, rows=rows, base=base)


POINT_WORDS = ("point", "center", "start", "end", "vertices", "vertex", "position", "closest", "com", "mins", "maxs", "translation")
DIR_WORDS = ("direction", "normal", "axes", "axis")


def aff_from_name(name):
    n = name.lower()
    if any(w in n for w in DIR_WORDS):
        return "D"
    if any(w in n for w in POINT_WORDS):
        return "P"
    return None


def rows_from_name(name):
    n = name.lower()
    return "vertices" in n or n.endswith("points") or "points_" in n or n == "p"


def Pose(a, b):
    return FV("pose", norm_frame(a), norm_frame(b))


def Rot(a, b):
    return FV("rot", norm_frame(a), norm_frame(b))


class Conflict:
    def __init__(self, func, node, what):
        self.func, self.node, self.what = func, node, what

    def key(self):
        return "%s|%s" % (self.func.key, stable_text(self.node, self.func.node)[:160])


class Frames:
    def __init__(self, idx):
        self.idx = idx
        self.conflicts = {}
        self._memo = {}
        self._busy = set()
        self._attrs = {}
        self.n_products = 0      # rotation/pose products typed with known frames on both sides
        self.n_expr = 0
        self.n_known = 0
        adj = idx.maybe_func("distance3d.utils::adjoint_from_transform")
        doc = ast.get_docstring(adj.node) if adj else ""
        # the wrench rule is taken from the repository's own docstring; it is only armed while that text is there
        self.wrench_rule = bool(doc) and "Ad_{\\boldsymbol{T}_{AB}}" in doc and "the transformation is" in doc and "inverted" in doc

    # ------------------------------------------------------------------ seeds
    def seed_params(self, f, argvals=None):
        params = f.params()
        poses = [pose_frames(p) for p in params]
        dsts = [p[1] for p in poses if p]
        srcs = [p[0] for p in poses if p]
        default = dsts[0] if dsts else None     # without a pose parameter nothing is known about the frame of the vectors
        env = {}
        for i, p in enumerate(params):
            if p == "self":
                env[p] = FV("self")
                continue
            if argvals is not None and i < len(argvals) and argvals[i] is not None:
                env[p] = argvals[i]
                continue
            pf = poses[i]
            low = p.lower()
            if pf:
                env[p] = Pose(*pf)
            elif in_frame(p):
                env[p] = Vec(in_frame(p), aff_from_name(p), rows_from_name(p))
            elif any(w in low for w in FREE_WORDS) and not any(w in low for w in ("point", "center")):
                env[p] = FREE
            elif low in LOCAL_DATA_WORDS and srcs:
                env[p] = Vec(srcs[0], "P", True)
            elif any(w in low for w in VEC_WORDS) and default is not None:
                env[p] = Vec(default, aff_from_name(p), rows_from_name(p))
            else:
                env[p] = None
        return env

    def attr_table(self, ci):
        if ci.key in self._attrs:
            return self._attrs[ci.key]
        table = {}
        self._attrs[ci.key] = table
        for rnd in range(2):
            for c in reversed(self.idx.mro(ci)):
                for m in c.methods.values():
                    env = self.seed_params(m)
                    if m.name == "__init__":
                        pass
                    env["self"] = FV("self", a=ci)
                    self._body(m.node.body, env, m, [], sink=table, record=False)
        return table

    # ------------------------------------------------------------------ functions
    def analyse(self, f, argvals=None, selfcls=None, record=True):
        env = self.seed_params(f, argvals)
        if "self" in env:
            env["self"] = FV("self", a=selfcls or f.cls)
        key = (f.key, tuple(repr(env.get(p)) for p in f.params()), selfcls.key if selfcls else None, bool(record))
        if key in self._memo:
            return self._memo[key]
        if key in self._busy:
            return None
        self._busy.add(key)
        rets = []
        # a helper written for a generic frame (`shape2origin`, `points_in_shape`) is analysed per call site: the frame symbols of its parameter
        # names are variables, bound here to the frames of the actual arguments (shape := ellipsoid)
        bind = {}
        for p_ in f.params():
            pf_, v_ = pose_frames(p_), env.get(p_)
            if pf_ and v_ is not None and getattr(v_, "kind", None) == "pose" and v_.a is not None and v_.b is not None:
                for sym, act in zip(pf_, (v_.a, v_.b)):
                    if sym != act and sym not in ("origin",):
                        bind[sym] = act
        self._bindings = getattr(self, "_bindings", [])
        self._bindings.append(bind)
        # a method that RE-FRAMES state — `self.X = transform_points(a2b, ... self.X ...)` with a2b a pose parameter — reads self.X in frame a until that store
        # and in frame b afterwards: inside such a method the attribute is tracked flow-sensitively (the class-wide table only knows the final frame)
        if "self" in env:
            for st_ in ast.walk(f.node):
                if isinstance(st_, ast.Assign) and len(st_.targets) == 1 and isinstance(st_.targets[0], ast.Attribute) and u(st_.targets[0].value) == "self":
                    attr_ = st_.targets[0].attr
                    reads_self = any(isinstance(n_, ast.Attribute) and n_.attr == attr_ and u(n_.value) == "self" for n_ in ast.walk(st_.value))
                    # the value may go through locals computed from self.X before: look for any transform_* call with a pose parameter in the method
                    poses_ = [c_.args[0].id for c_ in ast.walk(f.node) if isinstance(c_, ast.Call) and (call_name(c_) or "").split(".")[-1] in ("transform_points", "transform_directions", "transform_point", "transform_direction")
                              and c_.args and isinstance(c_.args[0], ast.Name) and c_.args[0].id in f.params() and env.get(c_.args[0].id) is not None and env[c_.args[0].id].kind == "pose"]
                    uses_ = any(isinstance(n_, ast.Attribute) and n_.attr == attr_ and u(n_.value) == "self" and isinstance(n_.ctx, ast.Load) for n_ in ast.walk(f.node))
                    if poses_ and uses_ and len(set(poses_)) == 1 and ("self." + attr_) not in env:
                        src_ = env[poses_[0]].a
                        if src_ is not None and (reads_self or any(isinstance(c_, ast.Call) and (call_name(c_) or "").split(".")[-1].startswith("transform_") for c_ in ast.walk(st_.value))
                                                 or isinstance(st_.value, (ast.Name, ast.Call))):
                            env["self." + attr_] = Vec(src_, None, True)
        try:
            self._body(f.node.body, env, f, rets, record=record)
        finally:
            self._bindings.pop()
        self._busy.discard(key)
        out = None
        for r in rets:
            out = self._join(out, r)
        self._memo[key] = out
        return out

    def _join(self, a, b):
        if a is None:
            return b
        if b is None:
            return a
        if a == b:
            return a
        if a.kind == "free":
            return b
        if b.kind == "free":
            return a
        if a.kind == "tuple" and b.kind == "tuple" and len(a.elts) == len(b.elts):
            return FV("tuple", elts=[self._join(x, y) for x, y in zip(a.elts, b.elts)])
        return None

    # ------------------------------------------------------------------ statements
    def _body(self, body, env, f, rets, sink=None, record=True):
        for st in body:
            self._stmt(st, env, f, rets, sink, record)

    def _stmt(self, st, env, f, rets, sink, record):
        if isinstance(st, ast.Return):
            if st.value is not None:
                rets.append(self.ev(st.value, env, f, record))
            return
        if isinstance(st, ast.Assign):
            v = self.ev(st.value, env, f, record)
            for t in st.targets:
                self._assign(t, v, env, f, st, sink, record)
            return
        if isinstance(st, ast.AugAssign):
            cur = self.ev(st.target, env, f, record)
            v = self.ev(st.value, env, f, record)
            if isinstance(st.op, (ast.Add, ast.Sub)):
                r = self._same(cur, v, f, st, "augmented assignment", record, op="+" if isinstance(st.op, ast.Add) else "-")
            else:
                r = self._scale(cur, v)
            if isinstance(st.target, ast.Name):
                env[st.target.id] = r
            return
        if isinstance(st, ast.If):
            self.ev(st.test, env, f, record)
            e1, e2 = dict(env), dict(env)
            self._body(st.body, e1, f, rets, sink, record)
            self._body(st.orelse, e2, f, rets, sink, record)
            for k in set(e1) | set(e2):
                env[k] = self._join_env(e1.get(k), e2.get(k))
            return
        if isinstance(st, (ast.For, ast.While)):
            if isinstance(st, ast.For):
                it = self.ev(st.iter, env, f, record)
                self._bind(st.target, it, st.iter, env)
            else:
                self.ev(st.test, env, f, record)
            for rnd in range(2):
                e1 = dict(env)
                self._body(st.body, e1, f, rets, sink, record and rnd == 1)
                for k in e1:
                    env[k] = e1[k] if k not in env else self._join_env(env.get(k), e1.get(k))
            return
        if isinstance(st, ast.Expr):
            self.ev(st.value, env, f, record)
            return
        if isinstance(st, (ast.With, ast.Try)):
            self._body(st.body, env, f, rets, sink, record)
            return

    def _join_env(self, a, b):
        if a is None or b is None:
            return None if (a is None and b is None) else None
        return self._join(a, b)

    def _bind(self, target, it, iternode, env):
        if isinstance(target, ast.Name):
            if it is not None and it.kind == "vec":
                env[target.id] = it
            else:
                env[target.id] = FREE if (isinstance(iternode, ast.Call) and call_name(iternode) == "range") else None
        elif isinstance(target, ast.Tuple):
            cn = call_name(iternode) if isinstance(iternode, ast.Call) else None
            for i, t in enumerate(target.elts):
                if isinstance(t, ast.Name):
                    if cn == "enumerate" and i == 1 and isinstance(iternode, ast.Call) and iternode.args:
                        env[t.id] = None
                    else:
                        env[t.id] = FREE if (cn == "enumerate" and i == 0) else None

    def _assign(self, t, v, env, f, st, sink, record):
        if isinstance(t, ast.Name):
            bind = (getattr(self, "_bindings", None) or [{}])[-1]
            declared = in_frame(t.id)
            declared = bind.get(declared, declared)
            if declared and v is not None and v.kind in ("vec", "wrench") and v.a is not None and v.a != declared:
                if record:
                    extra = ""
                    if v.kind == "wrench":
                        extra = (" (transposed adjoint of a transform x->y maps wrenches from y to x: rule F_B = [Ad_T_AB]^T F_A, 'the transformation is "
                                 "inverted', in adjoint_from_transform's docstring)")
                    self._conflict(f, st, "`%s` is named as a quantity in frame `%s` but the assigned value is expressed in frame `%s`%s" % (t.id, declared, v.a, extra))
                v = FV(v.kind, declared)    # trust the name downstream: report the root cause once
            pf = pose_frames(t.id)
            if pf:
                pf = (bind.get(pf[0], pf[0]), bind.get(pf[1], pf[1]))
            if pf and v is not None and v.kind == "pose" and (v.a, v.b) != pf and v.a is not None and v.b is not None and record:
                self._conflict(f, st, "`%s` is named as the transform %s->%s but the assigned value is %r" % (t.id, pf[0], pf[1], v))
            if pf and (v is None or v.kind in ("free",)):
                v = Pose(*pf)
            if declared and (v is None or v.kind == "free"):
                v = Vec(declared)
            env[t.id] = v
        elif isinstance(t, ast.Tuple):
            if v is not None and v.kind == "tuple" and len(v.elts) == len(t.elts):
                for a, b in zip(t.elts, v.elts):
                    self._assign(a, b, env, f, st, sink, record)
            else:
                for a in t.elts:
                    self._assign(a, None, env, f, st, sink, record)
        elif isinstance(t, ast.Attribute) and isinstance(t.value, ast.Name) and t.value.id == "self":
            if ("self." + t.attr) in env:
                env["self." + t.attr] = v
            if sink is not None:
                pf = pose_frames(t.attr)
                val = v
                if pf and (v is None or v.kind != "pose"):
                    val = Pose(*pf)
                # an attribute has a frame only when EVERY assignment in the class gives it that frame
                if t.attr not in sink:
                    sink[t.attr] = val
                elif sink[t.attr] is None or val is None:
                    sink[t.attr] = None
                elif sink[t.attr] != val:
                    sink[t.attr] = self._join(sink[t.attr], val)
        elif isinstance(t, ast.Subscript):
            base = self.ev(t.value, env, f, record)
            el = index_elts(t)
            # building a pose in a local 4x4 buffer: M[:3,:3] = Rot(a->b); M[:3,3] = Vec(b)
            if isinstance(t.value, ast.Name) and len(el) == 2 and isinstance(el[0], ast.Slice):
                name = t.value.id
                cur = env.get(name)
                c = el[1]
                if isinstance(c, ast.Slice) and v is not None and v.kind == "rot":
                    if cur is not None and cur.kind == "pose" and cur.b is not None and v.b is not None and cur.b != v.b and record and pose_frames(name):
                        self._conflict(f, st, "rotation part %r stored into `%s` (%r)" % (v, name, cur))
                    env[name] = Pose(v.a, v.b) if not pose_frames(name) else env.get(name)
                elif const(c) == 3 and v is not None and v.kind == "vec" and cur is not None and cur.kind == "pose":
                    if cur.b is not None and v.a is not None and cur.b != v.a and record:
                        self._conflict(f, st, "translation of `%s` (%r) is set from a vector expressed in frame `%s`" % (name, cur, v.a))
                elif isinstance(const(c), int) and const(c) < 3 and v is not None and v.kind == "vec" and cur is not None and cur.kind == "pose":
                    if cur.b is not None and v.a is not None and cur.b != v.a and record:
                        self._conflict(f, st, "axis column of `%s` (%r) is set from a vector expressed in frame `%s`" % (name, cur, v.a))

    # ------------------------------------------------------------------ algebra
    def _conflict(self, f, node, what):
        c = Conflict(f, node, what)
        self.conflicts.setdefault(c.key(), c)

    def _aff(self, a, b, op):
        x, y = a.aff, b.aff
        if op == "+":
            pairs = {("P", "D"): "P", ("D", "P"): "P", ("D", "D"): "D", ("T", "D"): "P", ("D", "T"): "P", ("RP", "T"): "P", ("T", "RP"): "P",
                     ("RP", "P"): "P", ("P", "RP"): "P", ("DB", "D"): "DB", ("D", "DB"): "DB", ("DB", "T"): "P", ("T", "DB"): "P", ("DB", "P"): "P", ("P", "DB"): "P"}
            return pairs.get((x, y))
        if op == "-":
            if x == "RP" and y == "RT":
                return "P"
            pairs = {("P", "D"): "P", ("D", "D"): "D", ("P", "P"): "D", ("T", "D"): "P", ("T", "P"): "D", ("T", "T"): "D", ("DB", "D"): "DB", ("P", "DB"): "P", ("T", "DB"): "P"}
            if x == "P" and y == "T":
                return "DB"
            return pairs.get((x, y))
        if x == y:
            return x
        if {x, y} <= {"P", "T"}:
            return "P"
        return None

    def _same(self, a, b, f, node, what, record=True, op=None):
        if a is None or b is None:
            r = a if b is None else b
            if r is not None and r.kind == "vec":
                return Vec(r.a, None, r.rows)     # affine kind of the result is unknown
            return r
        if a.kind == "free":
            return Vec(b.a, b.aff if b.aff in ("D", "P") else None, b.rows) if (b.kind == "vec" and op in ("+", "-")) else b
        if b.kind == "free":
            return Vec(a.a, "P" if a.aff in ("P", "T") else a.aff, a.rows, a.base) if (a.kind == "vec" and op in ("+", "-")) else a
        if a.kind in ("vec", "comp", "wrench") and b.kind in ("vec", "comp", "wrench"):
            if a.a is not None and b.a is not None and a.a != b.a:
                if record:
                    self._conflict(f, node, "%s of a quantity expressed in frame `%s` with one expressed in frame `%s`" % (what, a.a, b.a))
                return None
            if a.kind == "vec" and b.kind == "vec":
                fr = a.a if a.a is not None else b.a
                aff = self._aff(a, b, op)
                base = a.base if (a.aff == "P" and b.aff == "T") else None
                if op == "-" and a.aff == "P" and b.aff == "T":
                    base = b.base
                return Vec(fr, "P" if aff == "P" else aff, a.rows or b.rows, base)
            return a if a.a is not None else b
        if a.kind == b.kind and a.kind in ("pose", "rot") and a == b:
            return a
        return None

    def _scale(self, a, b):
        if a is None or b is None:
            return a if (b is None or (b is not None and b.kind in ("free", "comp"))) else (b if a is None else None)
        if a.kind in ("free", "comp") and b.kind in ("vec",):
            return Vec(b.a, "D" if b.aff in ("D", "DB") else None, b.rows)
        if b.kind in ("free", "comp") and a.kind in ("vec",):
            return Vec(a.a, "D" if a.aff in ("D", "DB") else None, a.rows)
        if a.kind == "free" and b.kind == "free":
            return FREE
        if a.kind == "vec" and b.kind == "vec":
            return Vec(a.a, "D" if (a.aff == "D" and b.aff == "D") else None, a.rows or b.rows) if a.a == b.a else None
        if a.kind in ("free", "comp") and b.kind in ("free", "comp"):
            return a if a.kind == "comp" else b
        return None

    def _matmul(self, a, b, f, node, record):
        """a . b with matrix semantics (np.dot / .dot / @)."""
        if a is None and b is None:
            return None
        ak = a.kind if a is not None else None
        bk = b.kind if b is not None else None
        if ak in ("rot", "pose") and bk in ("rot", "pose"):
            kind = "pose" if (ak == "pose" and bk == "pose") else "rot"
            if a.a is not None and b.b is not None:
                self.n_products += 1
                if a.a != b.b and record:
                    self._conflict(f, node, "product of %r with %r: the right factor maps into frame `%s`, the left factor expects frame `%s`" % (a, b, b.b, a.a))
                    return None
            return FV(kind, b.a, a.b)
        if ak in ("rot", "pose") and (b is None or bk in ("vec", "free")):
            if bk == "vec" and b.a is not None and a.a is not None:
                self.n_products += 1
                if b.a != a.a:
                    if record:
                        self._conflict(f, node, "%r is applied to a vector expressed in frame `%s` (it maps frame `%s` to `%s`): a transposed / missing / doubled rotation"
                                       % (a, b.a, a.a, a.b))
                    return None
            aff = None
            if bk == "vec":
                if b.aff in ("D",):
                    aff = "D"
                elif b.aff == "DB":
                    aff = "P" if (b.base is not None and b.base == (a.b,)) or (b.base is not None and b.base[0] == a.b) else "D"
                elif b.aff == "P":
                    aff = "RP"
                elif b.aff == "T":
                    aff = "RT"
            return Vec(a.b, aff, b.rows if bk == "vec" else False, base=(a.a, a.b))
        if (a is None or ak in ("vec", "free")) and bk in ("rot",):
            # row-vector convention: v @ R == R^T v : needs v in frame b, result in frame a
            if ak == "vec" and a.a is not None and b.b is not None:
                self.n_products += 1
                if a.a != b.b:
                    if record:
                        self._conflict(f, node, "row-vector product of a vector expressed in frame `%s` with %r (equals its transpose applied to the vector, "
                                                "which expects frame `%s`): a transposed / missing rotation" % (a.a, b, b.b))
                    return None
            aff = None
            if ak == "vec":
                aff = {"D": "D", "P": "RP", "T": "RT"}.get(a.aff)
                if a.aff == "DB":
                    aff = "P" if (a.base is not None and a.base[0] == b.a) else "D"
            return Vec(b.a, aff, a.rows if ak == "vec" else False, base=(b.b, b.a))
        if ak in ("adjT",) and (b is None or bk in ("wrench", "vec", "free")):
            # repo docstring: F_B = Ad(T_AB)^T F_A  =>  Adj(x->y)^T . Wrench(f) needs f == y and yields Wrench(x)
            if b is not None and bk in ("wrench", "vec") and b.a is not None and a.b is not None and self.wrench_rule:
                self.n_products += 1
                if b.a != a.b:
                    if record:
                        self._conflict(f, node, "transposed adjoint of the transform %s->%s applied to a wrench expressed in frame `%s`: by the rule in "
                                                "adjoint_from_transform's docstring (F_B = [Ad_T_AB]^T F_A, 'the transformation is inverted') this maps wrenches "
                                                "from `%s` to `%s`, so the operand must be expressed in `%s`" % (a.a, a.b, b.a, a.b, a.a, a.b))
                    return None
            return FV("wrench", a.a)
        if ak == "vec" and bk == "vec":
            if a.a is not None and b.a is not None and a.a != b.a and record:
                self._conflict(f, node, "dot product of vectors expressed in frames `%s` and `%s`" % (a.a, b.a))
            return FV("comp", a.a if a.a == b.a else None)
        if ak == "vec" and bk == "free":
            return a      # e.g. (n x 3 free coordinates) . axes
        if ak == "free" and bk == "vec":
            return b
        return None

    # ------------------------------------------------------------------ expressions
    def ev(self, node, env, f, record=True):
        v = self._ev(node, env, f, record)
        self.n_expr += 1
        if v is not None:
            self.n_known += 1
        return v

    def _ev(self, node, env, f, record):
        if node is None:
            return None
        if isinstance(node, ast.Constant):
            return FREE if isinstance(node.value, (int, float)) and not isinstance(node.value, bool) else None
        if isinstance(node, ast.Name):
            if node.id in env:
                return env[node.id]
            r = self.idx.resolve_name(f.module, node.id)
            if r and r[0] in ("const", "constnode") and node.id.isupper():
                return FREE
            return None
        if isinstance(node, ast.Attribute):
            if node.attr == "T":
                b = self.ev(node.value, env, f, record)
                if b is not None and b.kind == "rot":
                    return Rot(b.b, b.a)
                if b is not None and b.kind == "adj":
                    return FV("adjT", b.a, b.b)
                if b is not None and b.kind == "pose":
                    return None
                return b
            if isinstance(node.value, ast.Name) and node.value.id == "self" and ("self." + node.attr) in env:
                return env["self." + node.attr]
            base = self.ev(node.value, env, f, record)
            if base is not None and base.kind == "self" and base.a is not None:
                pf = pose_frames(node.attr)
                if pf:
                    return Pose(*pf)
                tab = self.attr_table(base.a)
                if node.attr in tab:
                    return tab[node.attr]
                m = self.idx.find_method(base.a, node.attr)
                if m is not None and "property" in m.decorators:
                    return self.analyse(m, selfcls=base.a, record=False)
                return None
            if isinstance(node.value, ast.Name) and node.value.id in ("np", "math"):
                return FREE
            pf = pose_frames(node.attr)
            if pf:
                return Pose(*pf)
            return None
        if isinstance(node, ast.Subscript):
            b = self.ev(node.value, env, f, record)
            el = index_elts(node)
            if b is None:
                return None
            if b.kind == "pose":
                if len(el) == 2:
                    r, c = el
                    if isinstance(r, ast.Slice) or u(r) in ("np.newaxis", "None"):
                        if isinstance(c, ast.Slice):
                            hi = const(c.upper) if c.upper is not None else 4
                            if isinstance(hi, int) and hi <= 3:
                                return Rot(b.a, b.b)
                            return None
                        cv = const(c)
                        if cv == 3:
                            return Vec(b.b, "T", base=(b.a, b.b))
                        return Vec(b.b, "D")      # an axis of frame a, expressed in frame b
                if len(el) == 2 and isinstance(el[1], ast.Slice) and not isinstance(el[0], ast.Slice) and u(el[0]) not in ("np.newaxis", "None"):
                    rv = const(el[0])
                    hi = const(el[1].upper) if el[1].upper is not None else 4
                    if isinstance(rv, int) and rv < 3 and isinstance(hi, int) and hi <= 3:
                        # row k of the rotation a->b  ==  column k of its transpose: axis k of frame b expressed in frame a
                        return Vec(b.a, "D")
                    if rv is None and isinstance(el[0], (ast.Name, ast.List, ast.Tuple)) and isinstance(hi, int) and hi <= 3:
                        # rows selected by an index variable / an index list (`pose[js, :3]`): still rows of the rotation, i.e. directions of frame a
                        return Vec(b.a, "D", rows=not isinstance(el[0], ast.Name) or None)
                    return None
                if len(el) == 3:
                    # mesh2origin[np.newaxis, :3, 3]
                    cv = const(el[2])
                    if cv is not None:
                        return Vec(b.b, "T" if cv == 3 else "D", base=(b.a, b.b))
                if len(el) == 1 and isinstance(el[0], ast.Slice):
                    return b
                return None
            if b.kind == "rot":
                return None
            if b.kind == "vec":
                # component access or row of an n x 3 array
                if b.rows and len(el) == 1:
                    return Vec(b.a, b.aff, rows=isinstance(el[0], ast.Slice) or not (isinstance(const(el[0]), int) or isinstance(el[0], (ast.Name, ast.Call, ast.BinOp))))
                if len(el) == 1 and not isinstance(el[0], ast.Slice) and isinstance(const(el[0]), int):
                    return FV("comp", b.a)
                if len(el) == 2 and not isinstance(el[1], ast.Slice) and isinstance(const(el[1]), int) and not (u(el[1]) in ("np.newaxis",)):
                    return FV("comp", b.a)
                return b
            if b.kind == "tuple":
                i = const(node.slice)
                if isinstance(i, int) and -len(b.elts) <= i < len(b.elts):
                    return b.elts[i]
                if isinstance(node.slice, ast.Slice):
                    lo = const(node.slice.lower) if node.slice.lower is not None else 0
                    hi = const(node.slice.upper) if node.slice.upper is not None else len(b.elts)
                    if isinstance(lo, int) and isinstance(hi, int):
                        return FV("tuple", elts=b.elts[lo:hi])
                return None
            return b if b.kind in ("free", "comp") else None
        if isinstance(node, ast.UnaryOp):
            return self.ev(node.operand, env, f, record) if not isinstance(node.op, ast.Not) else None
        if isinstance(node, ast.BinOp):
            a = self.ev(node.left, env, f, record)
            b = self.ev(node.right, env, f, record)
            if isinstance(node.op, ast.MatMult):
                return self._matmul(a, b, f, node, record)
            if isinstance(node.op, (ast.Add, ast.Sub)):
                return self._same(a, b, f, node, "sum/difference", record, op="+" if isinstance(node.op, ast.Add) else "-")
            if isinstance(node.op, (ast.Mult, ast.Div, ast.Pow)):
                return self._scale(a, b)
            return None
        if isinstance(node, ast.Compare):
            self.ev(node.left, env, f, record)
            for c in node.comparators:
                self.ev(c, env, f, record)
            return None
        if isinstance(node, ast.BoolOp):
            for v in node.values:
                self.ev(v, env, f, record)
            return None
        if isinstance(node, ast.IfExp):
            return self._join(self.ev(node.body, env, f, record), self.ev(node.orelse, env, f, record))
        if isinstance(node, ast.Tuple):
            return FV("tuple", elts=[self.ev(e, env, f, record) for e in node.elts])
        if isinstance(node, ast.List):
            vals = [self.ev(e, env, f, record) for e in node.elts]
            fr = {v.a for v in vals if v is not None and v.kind in ("comp", "vec") and v.a is not None}
            if len(fr) == 1 and all(v is not None and v.kind in ("comp", "vec", "free") for v in vals):
                return Vec(fr.pop())
            if vals and all(v is not None and v.kind == "free" for v in vals):
                return FREE
            return None
        if isinstance(node, (ast.ListComp, ast.GeneratorExp)):
            e2 = dict(env)
            for g in node.generators:
                it = self.ev(g.iter, e2, f, record)
                self._bind(g.target, it, g.iter, e2)
            return self.ev(node.elt, e2, f, record)
        if isinstance(node, ast.Call):
            return self._call(node, env, f, record)
        return None

    def _call(self, node, env, f, record):
        cn = call_name(node) or ""
        short = cn.split(".")[-1]
        args = node.args
        d = dot_args(node)
        if d is not None and (cn in ("np.dot", "numpy.dot") or (isinstance(node.func, ast.Attribute) and node.func.attr == "dot" and not cn.startswith(("np.", "numpy.")))):
            a = self.ev(d[0], env, f, record)
            b = self.ev(d[1], env, f, record)
            return self._matmul(a, b, f, node, record)
        if cn.startswith(("np.", "numpy.", "math.")) or cn in ("abs", "min", "max", "sum", "float"):
            vals = [self.ev(a, env, f, record) for a in args]
            for kw in node.keywords:
                self.ev(kw.value, env, f, record)
            v0 = vals[0] if vals else None
            if short in ("cross",) and len(vals) == 2:
                return self._same(vals[0], vals[1], f, node, "cross product", record)
            if short in ("copy", "ascontiguousarray", "asarray", "array", "negative", "abs", "fabs", "absolute", "clip", "mean", "sum", "cumsum", "squeeze", "atleast_2d", "real"):
                if short == "clip":
                    return v0
                if short in ("mean", "sum") and v0 is not None and v0.kind == "vec":
                    ax = [const(k.value) for k in node.keywords if k.arg == "axis"]
                    return v0 if ax in ([0], []) else (FV("comp", v0.a) if ax == [1] else None)
                return v0
            if short in ("min", "max", "amin", "amax", "minimum", "maximum") and vals:
                if short in ("minimum", "maximum") and len(vals) == 2:
                    return self._same(vals[0], vals[1], f, node, short, record)
                if v0 is not None and v0.kind == "vec":
                    ax = [const(k.value) for k in node.keywords if k.arg == "axis"]
                    return v0 if ax == [0] else (FV("comp", v0.a) if ax in ([1], []) else v0)   # per-axis bounds keep the frame
                return v0
            if short in ("norm", "sqrt", "arccos", "arctan2", "sin", "cos", "argmin", "argmax", "argsort", "sign", "all", "any", "where", "finfo", "isclose", "allclose"):
                if short in ("sqrt", "sign") and v0 is not None and v0.kind == "vec":
                    return v0
                return FREE if short in ("norm", "sqrt", "arccos", "arctan2", "sin", "cos") else None
            if short in ("zeros", "ones", "empty", "eye", "zeros_like", "empty_like", "full", "arange", "linspace", "identity"):
                return FREE
            if short in ("vstack", "hstack", "column_stack", "row_stack", "stack", "concatenate", "dstack"):
                if v0 is not None and v0.kind == "tuple":
                    out = FREE
                    for v in v0.elts:
                        if v is not None and v.kind == "tuple":
                            out = v
                            continue
                        out = self._same(out, v, f, node, short, record) if v is not None else out
                    return out if out is not None and out.kind != "free" else None
                return v0
            if short in ("inv", "pinv"):
                if v0 is not None and v0.kind in ("pose", "rot"):
                    return FV(v0.kind, v0.b, v0.a)
                return None
            return None
        if cn in ("len", "range", "int", "float", "enumerate", "zip", "bool", "isinstance", "type", "print", "list", "tuple", "sorted", "any", "all"):
            vals = [self.ev(a, env, f, record) for a in args]
            return vals[0] if cn in ("list", "tuple", "sorted") and vals else (FREE if cn in ("len", "int", "float") else None)
        callee = self.idx.resolve_call(f.module, node, env["self"].a if ("self" in env and env["self"] is not None and env["self"].kind == "self") else f.cls)
        vals = []
        for a in args:
            if isinstance(a, ast.Starred):
                # helper(*pair_returning_call(...)): the elements of the tuple become the positional arguments
                tv = self.ev(a.value, env, f, record)
                if tv is not None and tv.kind == "tuple" and tv.elts:
                    vals.extend(tv.elts)
                else:
                    vals.append(None)
            else:
                vals.append(self.ev(a, env, f, record))
        kw = {k.arg: self.ev(k.value, env, f, record) for k in node.keywords}
        if isinstance(callee, FuncInfo):
            if callee.name == "norm_vector":
                return vals[0] if vals else None
            if callee.name == "invert_transform" and vals and vals[0] is not None and vals[0].kind == "pose":
                return Pose(vals[0].b, vals[0].a)
            if callee.name == "adjoint_from_transform" and vals and vals[0] is not None and vals[0].kind == "pose":
                return FV("adj", vals[0].a, vals[0].b)
            if callee.name == "plane_basis_from_normal" and vals:
                return FV("tuple", elts=[vals[0], vals[0]])
            ps = callee.params()
            off = 1 if (ps and ps[0] == "self") else 0
            argv = [None] * len(ps)
            for i, v in enumerate(vals):
                if i + off < len(ps):
                    argv[i + off] = v
            for k, v in kw.items():
                if k in ps:
                    argv[ps.index(k)] = v
            # bind the callee's symbolic frames to the actual ones: pose arguments rename the callee's frames
            ren = {}
            for i, p in enumerate(ps):
                pf = pose_frames(p)
                a = argv[i]
                if pf and a is not None and a.kind == "pose":
                    if a.a is not None:
                        ren[pf[0]] = a.a
                    if a.b is not None:
                        ren[pf[1]] = a.b
            # check declared `_in_X` parameters against the actual frames
            for i, p in enumerate(ps):
                dfr = in_frame(p)
                a = argv[i]
                if dfr and a is not None and a.kind == "vec" and a.a is not None:
                    want = ren.get(dfr, None)
                    if want is not None:
                        self.n_products += 1
                        if want != a.a and record:
                            self._conflict(f, node, "%s(%s): parameter `%s` expects a vector expressed in frame `%s` (here `%s`), the argument is expressed in frame `%s`"
                                           % (callee.name, ", ".join(u(x) for x in args), p, dfr, want, a.a))
            selfcls = None
            if off and isinstance(node.func, ast.Attribute):
                recv = self.ev(node.func.value, env, f, False)
                if recv is not None and recv.kind == "self":
                    selfcls = recv.a
            private = callee.name.startswith("_") and not callee.name.startswith("__")
            res = self.analyse(callee, argv, selfcls=selfcls, record=private and record)
            return res
        if isinstance(callee, ClassInfo):
            return None
        return None
