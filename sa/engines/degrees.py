"""E3 — length-degree (physical dimension) inference.

Every expression gets a degree in Q (how it scales when the whole scene is scaled by s), POLY (numeric literals,
epsilons, zero arrays: compatible with any degree) or None (unknown).  Seeds come from the repository's parameter
naming convention (frozen table below); private helpers are evaluated per call site with the actual argument degrees
(context sensitive, memoised).  `+ - compare min max stack` need equal degrees, `* dot cross @` add, `/` subtracts,
`sqrt` halves, `** q` multiplies.  A violation is two KNOWN different degrees meeting.
"""
import ast
import re
from fractions import Fraction

from ..core.astutil import u, call_name, const, iter_stmts, index_elts, dot_args, stable_text
from ..core.index import FuncInfo, ClassInfo

POLY = "poly"
LIT = "lit"      # non-zero numeric literal: neutral in products, degree 0 in sums and comparisons


class Pose:
    """4x4 pose: rotation part degree 0, translation part degree 1."""
    def __repr__(self):
        return "Pose"


POSE = Pose()

# ---- naming convention (confirmed by reading every public signature of the package)
DEG1_WORDS = ("point", "center", "start", "end", "radius", "radii", "size", "length", "lengths", "height", "vertices", "vertex",
              "margin", "extent", "extents", "half_lengths", "translation", "position", "mtv", "depth", "closest", "triangle_points",
              "simplex", "com")
DEG0_WORDS = ("direction", "normal", "axes", "axis", "weights", "barycentric")
POLY_WORDS = ("epsilon", "tolerance", "eps", "max_iter", "max_iterations", "n_", "idx", "index", "indices", "sign", "signed", "iteration")
_POSE_RE = re.compile(r"^[A-Za-z][A-Za-z_]*?[a-z0-9]2[a-z][A-Za-z_0-9]*$")
NOT_POSE = ("adjoint", "wrench", "m2b2")
_TEMP_RE = re.compile(r"^[a-z]{1,2}\d")      # e213, d2, b1_squared ... are scalar temporaries, never poses


def seed_from_name(name):
    n = name.lower()
    if n in ("self", "cls"):
        return None
    if _POSE_RE.match(name) and not any(w in n for w in NOT_POSE) and not re.search(r"\d2\d", n) and not _TEMP_RE.match(n):
        return POSE
    if n in ("a2b", "b2a", "pose"):
        return POSE
    if "squared" in n or n.endswith("_sq") or n.endswith("_sqr"):
        stripped = re.sub(r"(^|_)(squared|sqr|sq)(_|$)", "_", n).strip("_")
        base = seed_from_name(stripped) if (stripped and stripped != n and "squared" not in stripped) else None
        if isinstance(base, Fraction):
            return base * 2
        return None
    for w in POLY_WORDS:
        if n == w or n.startswith(w) or n.endswith("_" + w.strip("_")):
            return POLY
    for w in DEG0_WORDS:
        if w in n:
            return Fraction(0)
    for w in DEG1_WORDS:
        if w in n:
            return Fraction(1)
    if n in ("dist", "distance") or n.startswith("dist"):
        return Fraction(1)
    return None


class Mismatch:
    def __init__(self, func, node, what, left, right):
        self.func, self.node, self.what, self.left, self.right = func, node, what, left, right

    def key(self):
        return "%s|%s" % (self.func.key, stable_text(self.node, self.func.node))


def _is_deg(x):
    return isinstance(x, Fraction)


def _tolerance_name(e):
    """'self.epsilon' / 'tolerance' / 'EPSILON' ... when e is a bare tolerance symbol (possibly scaled by a literal), else None"""
    if isinstance(e, ast.BinOp) and isinstance(e.op, ast.Mult):
        for a_, b_ in ((e.left, e.right), (e.right, e.left)):
            if isinstance(a_, ast.Constant):
                return _tolerance_name(b_)
        return None
    t = ast.unparse(e)
    low = t.lower()
    if isinstance(e, (ast.Name, ast.Attribute)) and any(w in low for w in ("eps", "tol", "bias")) and "sq" not in low:
        return t
    return None


class Degrees:
    def __init__(self, idx, face_arrays=None):
        self.idx = idx
        self.mismatches = {}
        self._memo = {}
        self._busy = set()
        self.n_expr = 0
        self.n_known = 0
        self.face_arrays = face_arrays or {}   # base text -> {last index: degree}
        self.tol_uses = {}                      # (function key, tolerance symbol) -> [(degree, Compare node)]

    # ------------------------------------------------------------------ functions
    def analyse(self, f, argdeg=None):
        """Evaluate f with parameter degrees (argdeg overrides the name seeds where given) -> return degree(s)."""
        params = f.params()
        seeds = []
        for i, p in enumerate(params):
            d = None
            if argdeg is not None and i < len(argdeg) and argdeg[i] is not None:
                d = argdeg[i]
            else:
                d = seed_from_name(p)
            seeds.append(d)
        key = (f.key, tuple(repr(s) for s in seeds))
        if key in self._memo:
            return self._memo[key]
        if key in self._busy:
            return None
        self._busy.add(key)
        env = {p: s for p, s in zip(params, seeds)}
        rets = []
        self._body(f.node.body, env, f, rets)
        self._busy.discard(key)
        out = None
        for r in rets:
            out = self._join_ret(out, r)
        self._memo[key] = out
        return out

    def _join_ret(self, a, b):
        if a is None:
            return b
        if b is None:
            return a
        if isinstance(a, tuple) and isinstance(b, tuple) and len(a) == len(b):
            return tuple(self._join1(x, y) for x, y in zip(a, b))
        if isinstance(a, tuple) or isinstance(b, tuple):
            return None
        return self._join1(a, b)

    def _join1(self, a, b):
        if a == b:
            return a
        if a == LIT:
            a = POLY
        if b == LIT:
            b = POLY
        if a == b:
            return a
        if a == POLY:
            return b
        if b == POLY:
            return a
        if a is None or b is None:
            return None if (a is None and b is None) else (a if b is None else b)
        return None

    # ------------------------------------------------------------------ statements
    def _body(self, body, env, f, rets):
        for st in body:
            self._stmt(st, env, f, rets)

    def _stmt(self, st, env, f, rets):
        if isinstance(st, ast.Return):
            if st.value is not None:
                rets.append(self.ev(st.value, env, f))
            return
        if isinstance(st, ast.Assign):
            v = self.ev(st.value, env, f)
            if v == LIT:
                v = POLY     # a variable initialised with a bare number (initial guess, counter, flag) carries no degree
            for t in st.targets:
                self._assign(t, v, env, f, st)
            return
        if isinstance(st, ast.AugAssign):
            cur = self.ev(st.target, env, f)
            v = self.ev(st.value, env, f)
            if isinstance(st.op, (ast.Add, ast.Sub)):
                r = self._same(cur, v, f, st, "augmented %s" % type(st.op).__name__)
            elif isinstance(st.op, ast.Mult):
                r = self._mul(cur, v)
            elif isinstance(st.op, ast.Div):
                r = self._div(cur, v)
            else:
                r = None
            if isinstance(st.target, ast.Name):
                env[st.target.id] = r
            return
        if isinstance(st, ast.If):
            self.ev(st.test, env, f)
            e1, e2 = dict(env), dict(env)
            # the arm that runs under an EXACT zero (`if x == 0.0:` body, `if x != 0.0:` else) handles a degenerate input: 0 scales to 0, no homogeneity claim is made
            # for what it computes (same rule as for the conditional expression; `t = r; if l != 0: t /= l` joins the two degrees silently as well)
            t_ = st.test
            zero_arm = None
            if isinstance(t_, ast.Compare) and len(t_.ops) == 1 and isinstance(t_.ops[0], (ast.Eq, ast.NotEq)) \
                    and any(isinstance(x, ast.Constant) and x.value in (0, 0.0) and not isinstance(x.value, bool) for x in (t_.left, t_.comparators[0])):
                zero_arm = "body" if isinstance(t_.ops[0], ast.Eq) else "orelse"
            for arm_, env_ in (("body", e1), ("orelse", e2)):
                if arm_ == zero_arm:
                    self._mute = getattr(self, "_mute", 0) + 1
                try:
                    self._body(getattr(st, arm_), env_, f, rets)
                finally:
                    if arm_ == zero_arm:
                        self._mute -= 1
            for k in set(e1) | set(e2):
                a, b = e1.get(k), e2.get(k)
                env[k] = self._join1(a, b) if not (isinstance(a, tuple) or isinstance(b, tuple)) else (a if a == b else None)
            return
        if isinstance(st, (ast.For, ast.While)):
            if isinstance(st, ast.For):
                it = self.ev(st.iter, env, f)
                self._bind_loop(st.target, it, st.iter, env)
            else:
                self.ev(st.test, env, f)
            for _ in range(2):
                e1 = dict(env)
                self._body(st.body, e1, f, rets)
                for k in set(e1):
                    a, b = env.get(k), e1.get(k)
                    if k not in env:
                        env[k] = b
                    else:
                        env[k] = self._join1(a, b) if not (isinstance(a, tuple) or isinstance(b, tuple)) else (a if a == b else None)
            self._body(st.orelse, env, f, rets)
            return
        if isinstance(st, ast.Expr):
            self.ev(st.value, env, f)
            return
        if isinstance(st, (ast.With, ast.Try)):
            self._body(st.body, env, f, rets)
            for h in getattr(st, "handlers", []):
                self._body(h.body, dict(env), f, rets)
            return
        if isinstance(st, ast.Assert):
            self.ev(st.test, env, f)

    def _bind_loop(self, target, it, iternode, env):
        cn = call_name(iternode) if isinstance(iternode, ast.Call) else None
        if isinstance(target, ast.Name):
            env[target.id] = POLY if cn in ("range",) else (it if not isinstance(it, tuple) else None)
        elif isinstance(target, ast.Tuple):
            for i, t in enumerate(target.elts):
                if isinstance(t, ast.Name):
                    env[t.id] = POLY if (cn == "enumerate" and i == 0) else None

    def _assign(self, t, v, env, f, st):
        if isinstance(t, ast.Name):
            if seed_from_name(t.id) is POSE and not isinstance(v, tuple):
                v = POSE   # locals named like poses (sphere2origin = np.eye(4) ...) are poses
            env[t.id] = v
        elif isinstance(t, ast.Tuple):
            if isinstance(v, tuple) and len(v) == len(t.elts):
                for a, b in zip(t.elts, v):
                    self._assign(a, b, env, f, st)
            else:
                # unpacking an ARRAY along its first axis (`a, b, c = self.faces[i, :3]`): every element has the array's degree
                for a in t.elts:
                    self._assign(a, v if (not isinstance(v, tuple) and _is_deg(v) and isinstance(getattr(st, "value", None), ast.Subscript)) else None, env, f, st)
        elif isinstance(t, ast.Subscript):
            # store into an array: the stored value must have the array's degree
            cur = self.ev(t, env, f)
            if isinstance(t.value, ast.Name) and env.get(t.value.id) in (POLY, None) and not isinstance(v, tuple):
                # first store into a fresh buffer (np.empty/zeros) fixes its degree (only for plain [i] / [i, :] stores)
                if env.get(t.value.id) == POLY and _is_deg(v) and not self._is_pose_slot(t):
                    env[t.value.id] = v
            else:
                # stores through an attribute (self.x[:] = v) are not checked: an attribute's degree is only a guess from its name
                # (Solution.search_direction holds a POINT of the Minkowski difference)
                base = t.value
                while isinstance(base, ast.Subscript):
                    base = base.value
                if not isinstance(v, tuple) and isinstance(base, ast.Name):
                    self._same(cur, v, f, st, "store")
        elif isinstance(t, ast.Attribute):
            pass

    def _is_pose_slot(self, t):
        el = index_elts(t)
        return len(el) == 2 and isinstance(el[0], ast.Slice)

    # ------------------------------------------------------------------ arithmetic
    def _same(self, a, b, f, node, what):
        if isinstance(a, tuple) or isinstance(b, tuple):
            return None
        if a == LIT and b == LIT:
            return LIT
        if a == LIT:
            a = Fraction(0) if _is_deg(b) else POLY
        if b == LIT:
            b = Fraction(0) if _is_deg(a) else POLY
        if a is POSE or b is POSE:
            return POSE if (a is POSE and b is POSE) else None
        if _is_deg(a) and _is_deg(b) and a != b:
            if not getattr(self, "_mute", 0):
                m = Mismatch(f, node, what, a, b)
                self.mismatches.setdefault(m.key(), m)
            return None
        return self._join1(a, b)

    def _mul(self, a, b):
        if isinstance(a, tuple) or isinstance(b, tuple) or a is POSE or b is POSE:
            return None
        if a == LIT and b == LIT:
            return LIT
        if a == LIT:
            return b
        if b == LIT:
            return a
        if a == POLY and b == POLY:
            return POLY
        # a degree-polymorphic factor (zero vector, tolerance) times a dimensionless one (rotation, cosine) is still polymorphic:
        # R . zeros(3) is a zero vector, not a dimensionless quantity
        if a == POLY:
            return POLY if b == Fraction(0) else b
        if b == POLY:
            return POLY if a == Fraction(0) else a
        if _is_deg(a) and _is_deg(b):
            return a + b
        return None

    def _div(self, a, b):
        if isinstance(a, tuple) or isinstance(b, tuple) or a is POSE or b is POSE:
            return None
        if a == LIT and b == LIT:
            return LIT
        if b == LIT:
            return a
        if a == LIT:
            return -b if _is_deg(b) else (POLY if b == POLY else None)
        if b == POLY:
            return a
        if a == POLY and _is_deg(b):
            return -b
        if _is_deg(a) and _is_deg(b):
            return a - b
        return None

    # ------------------------------------------------------------------ expressions
    def ev(self, node, env, f):
        v = self._ev(node, env, f)
        self.n_expr += 1
        if v is not None:
            self.n_known += 1
        return v

    def _ev(self, node, env, f):
        if node is None:
            return None
        if isinstance(node, ast.Constant):
            if isinstance(node.value, (int, float)) and not isinstance(node.value, bool):
                # 0 is compatible with every degree; any other number is a pure number (degree 0) when it is ADDED or COMPARED,
                # and a neutral scale factor inside products (handled in _mul/_div through LIT)
                return POLY if node.value == 0 else LIT
            return None
        if isinstance(node, ast.Name):
            if node.id in env:
                return env[node.id]
            r = self.idx.resolve_name(f.module, node.id)
            if r and r[0] == "const" and isinstance(r[1], (int, float)):
                return POLY
            if r and r[0] == "constnode":
                return POLY if node.id.isupper() else None
            return seed_from_name(node.id) if node.id.isupper() is False and False else None
        if isinstance(node, ast.Attribute):
            if node.attr == "T":
                return self.ev(node.value, env, f)
            if isinstance(node.value, ast.Name) and node.value.id in ("np", "math", "numpy"):
                return POLY
            if node.attr in ("shape", "size", "ndim", "dtype"):
                return None
            key = u(node)
            if key in env:
                return env[key]
            base = self.ev(node.value, env, f) if not isinstance(node.value, ast.Name) else None
            return seed_from_name(node.attr)
        if isinstance(node, ast.Subscript):
            b = self.ev(node.value, env, f)
            el = index_elts(node)
            for e in el:
                if not isinstance(e, ast.Slice):
                    self.ev(e, env, f)
            bt = u(node.value)
            if bt in self.face_arrays and len(el) >= 1:
                k = const(el[-1])
                if k in self.face_arrays[bt]:
                    return self.face_arrays[bt][k]
                if isinstance(el[-1], ast.Slice):
                    hi = const(el[-1].upper) if el[-1].upper is not None else None
                    if hi is not None and all(self.face_arrays[bt].get(j) == self.face_arrays[bt].get(0) for j in range(hi)):
                        return self.face_arrays[bt].get(0)
                return None
            if b is POSE:
                if len(el) == 2:
                    c = el[1]
                    if isinstance(c, ast.Slice):
                        hi = const(c.upper) if c.upper is not None else 4
                        return Fraction(0) if (isinstance(hi, int) and hi <= 3) else None
                    cv = const(c)
                    if cv == 3:
                        return Fraction(1) if isinstance(el[0], ast.Slice) else POLY
                    return Fraction(0)
                if len(el) == 1 and isinstance(el[0], ast.Slice):
                    return POSE
                return None
            if isinstance(b, tuple):
                i = const(node.slice)
                if isinstance(i, int) and -len(b) <= i < len(b):
                    return b[i]
                if isinstance(node.slice, ast.Slice):
                    lo = const(node.slice.lower) if node.slice.lower is not None else 0
                    hi = const(node.slice.upper) if node.slice.upper is not None else len(b)
                    if isinstance(lo, int) and isinstance(hi, int):
                        return b[lo:hi]
                return None
            return b
        if isinstance(node, ast.UnaryOp):
            v = self.ev(node.operand, env, f)
            return None if isinstance(node.op, ast.Not) else v
        if isinstance(node, ast.BinOp):
            a = self.ev(node.left, env, f)
            b = self.ev(node.right, env, f)
            if isinstance(node.op, (ast.Add, ast.Sub)):
                return self._same(a, b, f, node, "addition" if isinstance(node.op, ast.Add) else "subtraction")
            if isinstance(node.op, (ast.Mult, ast.MatMult)):
                return self._mul(a, b)
            if isinstance(node.op, (ast.Div, ast.FloorDiv)):
                return self._div(a, b)
            if isinstance(node.op, ast.Pow):
                q = const(node.right)
                if isinstance(q, (int, float)):
                    if a in (POLY, LIT):
                        return a
                    if _is_deg(a):
                        return a * Fraction(q).limit_denominator(12)
                return None
            if isinstance(node.op, ast.Mod):
                return a
            return None
        if isinstance(node, ast.Compare):
            sides = [node.left] + list(node.comparators)
            vals = [self.ev(s_, env, f) for s_ in sides]
            for x, y in zip(vals, vals[1:]):
                self._same(x, y, f, node, "comparison")
            # tolerance bookkeeping (R-TOLUNIT): which length degree is each tolerance symbol compared with?
            for (sa_, va_), (sb_, vb_) in zip(zip(sides, vals), list(zip(sides, vals))[1:]):
                for tol, other, od in ((sa_, sb_, vb_), (sb_, sa_, va_)):
                    name = _tolerance_name(tol)
                    if name is not None and _is_deg(od):
                        self.tol_uses.setdefault((f.key, name), []).append((od, node))
            return None
        if isinstance(node, ast.BoolOp):
            for v in node.values:
                self.ev(v, env, f)
            return None
        if isinstance(node, ast.IfExp):
            self.ev(node.test, env, f)
            # `A if x != 0.0 else B`: the arm selected by an EXACT zero handles a degenerate input (0 scales to 0, no scaling argument applies to it); it is
            # the statement form `t = B; if x != 0.0: t = A`, which joins without a homogeneity claim as well.  The result has the degree of the regular arm.
            t = node.test
            if isinstance(t, ast.Compare) and len(t.ops) == 1 and isinstance(t.ops[0], (ast.Eq, ast.NotEq)) \
                    and any(isinstance(x, ast.Constant) and x.value in (0, 0.0) and not isinstance(x.value, bool) for x in (t.left, t.comparators[0])):
                a, b = self.ev(node.body, env, f), self.ev(node.orelse, env, f)
                return a if isinstance(t.ops[0], ast.NotEq) else b
            return self._same(self.ev(node.body, env, f), self.ev(node.orelse, env, f), f, node, "conditional expression")
        if isinstance(node, (ast.Tuple,)):
            return tuple(self.ev(e, env, f) for e in node.elts)
        if isinstance(node, ast.List):
            vals = [self.ev(e, env, f) for e in node.elts]
            out = POLY if vals else None
            for v in vals:
                if isinstance(v, tuple) or v is POSE:
                    return None
                out = self._same(out, v, f, node, "array literal")
                if out is None and v is None:
                    return None
            return out
        if isinstance(node, (ast.ListComp, ast.GeneratorExp)):
            e2 = dict(env)
            for g in node.generators:
                it = self.ev(g.iter, e2, f)
                self._bind_loop(g.target, it, g.iter, e2)
            return self.ev(node.elt, e2, f)
        if isinstance(node, ast.Call):
            return self._call(node, env, f)
        return None

    def _call(self, node, env, f):
        cn = call_name(node) or ""
        short = cn.split(".")[-1]
        args = node.args
        d = dot_args(node)
        if d is not None and cn in ("np.dot", "numpy.dot") or (d is not None and isinstance(node.func, ast.Attribute) and node.func.attr == "dot" and not cn.startswith(("np.", "numpy."))):
            a = self.ev(d[0], env, f)
            b = self.ev(d[1], env, f)
            if a is POSE and b is POSE:
                return POSE
            return self._mul(a, b)
        if cn.startswith(("np.", "numpy.", "math.")) or cn in ("abs", "min", "max", "sum", "float", "round"):
            vals = [self.ev(a, env, f) for a in args]
            for kw in node.keywords:
                self.ev(kw.value, env, f)
            v0 = vals[0] if vals else None
            if short in ("cross", "outer", "kron"):
                return self._mul(vals[0], vals[1]) if len(vals) == 2 else None
            if short in ("norm", "abs", "fabs", "absolute", "sum", "mean", "min", "max", "amin", "amax", "copy", "ascontiguousarray", "asarray", "negative", "float", "float64",
                         "round", "cumsum", "sort", "squeeze", "ravel", "flatten", "transpose", "reshape", "median", "nanmin", "nanmax", "real"):
                if short in ("min", "max") and len(vals) > 1 and not cn.startswith(("np.", "numpy.")):
                    out = vals[0]
                    for v in vals[1:]:
                        out = self._same(out, v, f, node, short)
                    return out
                return v0 if not isinstance(v0, tuple) else None
            if short == "array":
                return v0 if not isinstance(v0, tuple) else None
            if short in ("minimum", "maximum", "fmin", "fmax", "hypot", "copysign"):
                return self._same(vals[0], vals[1], f, node, short) if len(vals) >= 2 else None
            if short == "clip":
                out = vals[0]
                for v in vals[1:]:
                    out = self._same(out, v, f, node, "clip")
                return out
            if short == "where" and len(vals) == 3:
                return self._same(vals[1], vals[2], f, node, "where")
            if short == "sqrt":
                if v0 in (POLY, LIT):
                    return v0
                return v0 / 2 if _is_deg(v0) else None
            if short in ("square",):
                return v0 * 2 if _is_deg(v0) else v0
            if short in ("zeros", "zeros_like", "empty", "empty_like"):
                return POLY
            if short in ("ones", "eye", "identity", "ones_like", "sign", "arange", "linspace", "sin", "cos", "tan", "arccos", "arcsin", "arctan", "arctan2", "acos", "asin", "atan",
                         "atan2", "exp", "log", "argmin", "argmax", "argsort", "isclose", "allclose", "all", "any", "isnan", "isfinite", "logical_not", "logical_and", "logical_or",
                         "floor", "ceil", "deg2rad", "rad2deg", "count_nonzero", "nonzero", "unique", "finfo"):
                if short in ("arctan2", "atan2") and len(vals) == 2:
                    self._same(vals[0], vals[1], f, node, "arctan2")
                return Fraction(0) if short in ("ones", "eye", "identity", "sign", "sin", "cos", "tan", "ones_like") else (POLY if short in ("finfo",) else None)
            if short in ("vstack", "hstack", "column_stack", "row_stack", "concatenate", "stack", "dstack", "append"):
                if isinstance(v0, tuple):
                    out = POLY
                    for v in v0:
                        if isinstance(v, tuple) or v is POSE:
                            return None
                        out = self._same(out, v, f, node, short)
                        if out is None and v is None:
                            return None
                    return out
                if short == "append" and len(vals) >= 2:
                    return self._same(vals[0], vals[1], f, node, "append")
                return v0
            if short in ("inv", "pinv"):
                return -v0 if _is_deg(v0) else (POSE if v0 is POSE else None)
            if short == "solve" and len(vals) == 2:
                return self._div(vals[1], vals[0])
            if short == "full" and len(vals) >= 2:
                return vals[1]
            if short == "pow" and len(vals) == 2:
                q = const(args[1])
                return v0 * Fraction(q).limit_denominator(12) if _is_deg(v0) and isinstance(q, (int, float)) else (POLY if v0 == POLY else None)
            return None
        if cn in ("len", "range", "int", "enumerate", "zip", "bool", "isinstance", "type", "print", "list", "tuple", "sorted", "reversed", "any", "all", "str"):
            vals = [self.ev(a, env, f) for a in args]
            if cn in ("list", "tuple", "sorted", "reversed") and vals:
                return vals[0]
            return POLY if cn in ("len", "int") else None
        # method calls on values
        if isinstance(node.func, ast.Attribute) and not isinstance(self.idx.resolve_call(f.module, node, f.cls), (FuncInfo, ClassInfo)):
            recv = self.ev(node.func.value, env, f)
            vals = [self.ev(a, env, f) for a in args]
            m = node.func.attr
            if m in ("copy", "sum", "mean", "min", "max", "reshape", "transpose", "flatten", "ravel", "squeeze", "astype", "clip", "round", "cumsum", "item", "tolist"):
                return recv if not isinstance(recv, tuple) else None
            if m in ("argmin", "argmax", "argsort", "any", "all"):
                return None
            if m == "append" and vals:
                key = u(node.func.value)
                if isinstance(node.func.value, ast.Name):
                    cur = env.get(key)
                    env[key] = vals[0] if cur in (None, POLY) or isinstance(cur, tuple) else self._same(cur, vals[0], f, node, "list append")
                return None
            return None
        # package functions
        callee = self.idx.resolve_call(f.module, node, f.cls)
        vals = [self.ev(a, env, f) for a in args]
        kw = {k.arg: self.ev(k.value, env, f) for k in node.keywords}
        if isinstance(callee, FuncInfo):
            if callee.name == "norm_vector":
                return Fraction(0)
            if callee.name in ("invert_transform",):
                return POSE
            ps = callee.params()
            off = 1 if (ps and ps[0] == "self") else 0
            argdeg = [None] * len(ps)
            for i, v in enumerate(vals):
                if i + off < len(ps):
                    argdeg[i + off] = v
            for k, v in kw.items():
                if k in ps:
                    argdeg[ps.index(k)] = v
            # public functions keep their own seeds where the caller knows nothing; private ones take the call site's
            merged = []
            for i, p in enumerate(ps):
                a = argdeg[i]
                merged.append(a if (a is not None and not isinstance(a, tuple)) else None)
            return self.analyse(callee, merged)
        if isinstance(callee, ClassInfo):
            return None
        return None
