"""Part of E6 — 'by construction' lattice for returned values, computed by a small forward interpreter:

  NONNEG  a scalar that is >= 0 by the way it is built (norm, sqrt, abs, 0.0, max(.,0), squares, a callee's NONNEG result ...)
  UNIT0   a vector that is norm_vector(...) (unit or zero) or np.zeros(...)
  ZERO    np.zeros(3) / 0.0
  NONE    the None placeholder (no result)
  OTHER   anything else (no claim)

Flow sensitive (statement order, joins at if/else and loops).  Conditions on parameters that have a constant default are
decided with that default (the properties' domain uses the default flags, e.g. point_to_plane(signed=False)).
Return summaries are tuples of kinds per return position, joined over all reachable return statements, computed on demand
through package-internal calls.
"""
import ast

from ..core.astutil import u, call_name, const, iter_stmts, dot_args
from ..core.index import FuncInfo

NONNEG, UNIT0, ZERO, OTHER, NONE = "NONNEG", "UNIT0", "ZERO", "OTHER", "NONE"


def join(a, b):
    if a is None:
        return b
    if b is None:
        return a
    if isinstance(a, tuple) or isinstance(b, tuple):
        if isinstance(a, tuple) and isinstance(b, tuple) and len(a) == len(b):
            return tuple(join(x, y) for x, y in zip(a, b))
        if a == NONE:
            return b
        if b == NONE:
            return a
        return OTHER
    if a == b:
        return a
    if {a, b} == {NONNEG, ZERO}:
        return NONNEG
    if {a, b} == {UNIT0, ZERO}:
        return UNIT0
    if NONE in (a, b):
        return a if b == NONE else b
    return OTHER


class Signs:
    def __init__(self, idx):
        self.idx = idx
        self._sum = {}
        self._busy = set()

    def summary(self, f, bound=None):
        """bound: {param: constant} known at the call site (flags passed as literals or from the caller's defaults)"""
        bkey = (f.key, tuple(sorted((bound or {}).items(), key=lambda kv: kv[0])))
        if bkey in self._sum:
            return self._sum[bkey]
        if bkey in self._busy:
            return None
        self._busy.add(bkey)
        env = {}
        # parameters with constant defaults
        self._defaults = getattr(self, "_defaults", {})
        defaults = {}
        a = f.node.args
        pos = a.posonlyargs + a.args
        for p, d in zip(pos[len(pos) - len(a.defaults):], a.defaults):
            v = const(d)
            if isinstance(v, (bool, int, float)) or (isinstance(d, ast.Constant) and d.value is None):
                defaults[p.arg] = d.value if isinstance(d, ast.Constant) else v
        defaults.update(bound or {})
        rets = []
        self._block(f.node.body, env, f, rets, defaults)
        out = None
        for r in rets:
            out = join(out, r)
        self._busy.discard(bkey)
        self._sum[bkey] = out
        return out

    def _yield_summary(self, call, f):
        callee = self.idx.resolve_call(f.module, call, f.cls)
        if not isinstance(callee, FuncInfo):
            return None
        ys = [n for n in ast.walk(callee.node) if isinstance(n, ast.Yield) and n.value is not None]
        if not ys:
            return None
        # evaluate the generator body like a function body and read the kinds of the yielded values in the environment at the end (a yielded
        # name is bound once per item by a library call)
        env2, rets = {}, []
        self._block(callee.node.body, env2, callee, rets, {})
        out = None
        for y in ys:
            k = self.kind_tuple(y.value, callee, env2)
            out = k if out is None else join(out, k)
        return out

    def _call_summary(self, node, f, env):
        callee = self.idx.resolve_call(f.module, node, f.cls)
        if not isinstance(callee, FuncInfo):
            return None
        ps = callee.params()
        bound = {}
        cur = getattr(self, "_cur_defaults", {})
        for i, a in enumerate(node.args):
            if i < len(ps):
                if isinstance(a, ast.Constant) and isinstance(a.value, bool):
                    bound[ps[i]] = a.value
                elif isinstance(a, ast.Name) and a.id in cur and isinstance(cur[a.id], bool):
                    bound[ps[i]] = cur[a.id]
        for kw in node.keywords:
            if kw.arg in ps and isinstance(kw.value, ast.Constant) and isinstance(kw.value.value, bool):
                bound[kw.arg] = kw.value.value
        return self.summary(callee, bound)

    # ------------------------------------------------------------------ statements
    def _truth(self, test, defaults):
        """True / False / None for tests decided by default parameter values and by what the path already knows about boolean names"""
        if isinstance(test, ast.Name) and test.id in defaults and isinstance(defaults[test.id], bool):
            return defaults[test.id]
        if isinstance(test, ast.Constant) and isinstance(test.value, bool):
            return test.value
        if isinstance(test, ast.UnaryOp) and isinstance(test.op, ast.Not):
            t = self._truth(test.operand, defaults)
            return None if t is None else (not t)
        if isinstance(test, ast.BoolOp):
            ts = [self._truth(v, defaults) for v in test.values]
            if isinstance(test.op, ast.And):
                return False if any(t is False for t in ts) else (True if all(t is True for t in ts) else None)
            return True if any(t is True for t in ts) else (False if all(t is False for t in ts) else None)
        return None

    def _facts(self, test, val, defaults):
        """{name: bool} implied by `test` evaluating to val (only plain names, negations, and conjunctions / disjunctions whose other operands are known)"""
        if isinstance(test, ast.Name):
            return {test.id: val}
        if isinstance(test, ast.UnaryOp) and isinstance(test.op, ast.Not):
            return self._facts(test.operand, not val, defaults)
        if isinstance(test, ast.BoolOp):
            conj = isinstance(test.op, ast.And)
            if val == conj:                      # (A and B) true / (A or B) false: every operand has that value
                out = {}
                for v in test.values:
                    out.update(self._facts(v, val, defaults))
                return out
            unknown = [v for v in test.values if self._truth(v, defaults) is None]
            if len(unknown) == 1:                # (A and B) false with A known true: B is false
                return self._facts(unknown[0], val, defaults)
        return {}

    def _block(self, body, env, f, rets, defaults):
        """returns True when the block always returns"""
        self._cur_defaults = defaults
        for st in body:
            self._cur_defaults = defaults
            if self._stmt(st, env, f, rets, defaults):
                return True
        return False

    def _stmt(self, st, env, f, rets, defaults):
        if isinstance(st, ast.Return):
            rets.append(self.kind_tuple(st.value, f, env) if st.value is not None else NONE)
            return True
        if isinstance(st, ast.Assign):
            v = self.kind_tuple(st.value, f, env)
            for t in st.targets:
                for n_ in ast.walk(t):
                    if isinstance(n_, ast.Name) and n_.id in defaults and n_.id not in f.params():
                        defaults.pop(n_.id)
                self._assign(t, v, st.value, env, f, defaults)
            return False
        if isinstance(st, ast.AugAssign):
            if isinstance(st.target, ast.Name):
                cur = env.get(st.target.id, OTHER)
                v = self.kind(st.value, f, env)
                if isinstance(st.op, (ast.Add, ast.Mult)) and cur in (NONNEG, ZERO) and v in (NONNEG, ZERO):
                    env[st.target.id] = NONNEG
                else:
                    env[st.target.id] = OTHER
            return False
        if isinstance(st, ast.If):
            t = self._truth(st.test, defaults)
            if t is True:
                return self._block(st.body, env, f, rets, defaults)
            if t is False:
                return self._block(st.orelse, env, f, rets, defaults)
            e1, e2 = dict(env), dict(env)
            d1 = dict(defaults, **self._facts(st.test, True, defaults))
            d2 = dict(defaults, **self._facts(st.test, False, defaults))
            r1 = self._block(st.body, e1, f, rets, d1)
            r2 = self._block(st.orelse, e2, f, rets, d2)
            if r1 and r2:
                return True
            src = e2 if r1 else (e1 if r2 else None)
            if src is not None:
                env.clear()
                env.update(src)
                # what the surviving branch knows holds for the rest of the block
                defaults.update(d2 if r1 else d1)
            else:
                for k in set(e1) | set(e2):
                    env[k] = join(e1.get(k, OTHER if k in e2 else None), e2.get(k, OTHER if k in e1 else None)) if (k in e1 and k in e2) else OTHER
            return False
        if isinstance(st, (ast.For, ast.While)):
            if isinstance(st, ast.For):
                for n in ast.walk(st.target):
                    if isinstance(n, ast.Name):
                        env[n.id] = OTHER
                # items of a library generator: the kinds of what it yields (joined over its yield statements)
                if isinstance(st.iter, ast.Call) and isinstance(st.target, ast.Tuple):
                    item = self._yield_summary(st.iter, f)
                    if isinstance(item, tuple) and len(item) == len(st.target.elts):
                        for a_, k_ in zip(st.target.elts, item):
                            if isinstance(a_, ast.Name):
                                env[a_.id] = k_
            pre = dict(env)
            for _ in range(2):
                e1 = dict(env)
                self._block(st.body, e1, f, rets, defaults)
                for k in set(e1) | set(env):
                    if k in e1 and k in env:
                        env[k] = join(env[k], e1[k])
                    elif k in e1:
                        env[k] = e1[k]     # defined inside the loop (best-of variables): value after >= 1 iteration
            return False
        if isinstance(st, (ast.With, ast.Try)):
            return self._block(st.body, env, f, rets, defaults)
        return False

    def _assign(self, t, v, valnode, env, f, defaults):
        if isinstance(t, ast.Name):
            env[t.id] = v if not isinstance(v, tuple) else v
        elif isinstance(t, ast.Tuple):
            if isinstance(v, tuple) and len(v) == len(t.elts):
                for a, b in zip(t.elts, v):
                    self._assign(a, b, None, env, f, defaults)
            elif isinstance(valnode, ast.Tuple) and len(valnode.elts) == len(t.elts):
                for a, b in zip(t.elts, valnode.elts):
                    self._assign(a, self.kind(b, f, env), None, env, f, defaults)
            else:
                for a in t.elts:
                    self._assign(a, OTHER, None, env, f, defaults)

    # ------------------------------------------------------------------ expressions
    def kind_tuple(self, node, f, env):
        if node is None:
            return NONE
        if isinstance(node, ast.Tuple):
            return tuple(self.kind_tuple(e, f, env) if isinstance(e, ast.Tuple) else self.kind(e, f, env) for e in node.elts)
        if isinstance(node, ast.Subscript) and isinstance(node.slice, ast.Slice):
            inner = self.kind_tuple(node.value, f, env)
            if isinstance(inner, tuple) and node.slice.step is None:
                lo = const(node.slice.lower) if node.slice.lower is not None else 0
                hi = const(node.slice.upper) if node.slice.upper is not None else len(inner)
                if isinstance(lo, int) and isinstance(hi, int):
                    return inner[lo:hi]
            return OTHER
        if isinstance(node, ast.BinOp) and isinstance(node.op, ast.Add):
            # tuple concatenation:  (flag,) + helper(...)
            l, r = self.kind_tuple(node.left, f, env), self.kind_tuple(node.right, f, env)
            if isinstance(l, tuple) and isinstance(r, tuple):
                return l + r
            if isinstance(l, tuple) and len(l) == 1 and isinstance(node.left, ast.Tuple):
                # (distance,) + <pair of points kept in one variable>: the distance slot is known, the rest is not
                return l + (OTHER, OTHER)
        if isinstance(node, ast.Call):
            s = self._call_summary(node, f, env)
            if isinstance(s, tuple):
                return s
            return self.kind(node, f, env)       # known constructors (norm_vector, sqrt, abs ...) first, then the callee's scalar summary
        if isinstance(node, ast.Name) and isinstance(env.get(node.id), tuple):
            return env[node.id]
        return self.kind(node, f, env)

    def kind(self, node, f, env, depth=0):
        if node is None:
            return NONE
        if isinstance(node, ast.Constant):
            if node.value is None:
                return NONE
            if isinstance(node.value, (int, float)) and not isinstance(node.value, bool):
                return ZERO if node.value == 0 else (NONNEG if node.value > 0 else OTHER)
            return OTHER
        if isinstance(node, ast.Name):
            if node.id in env:
                v = env[node.id]
                return v
            r = self.idx.resolve_name(f.module, node.id)
            if r and r[0] == "const" and isinstance(r[1], (int, float)):
                return NONNEG if r[1] >= 0 else OTHER
            if node.id in ("MAX_FLOAT",):
                return NONNEG
            # a module-level name bound once to an expression (`_FLOAT_MAX = np.finfo(float).max`): the kind of that expression
            cn_ = getattr(f.module, "const_nodes", {}).get(node.id)
            if cn_ is not None and depth < 3 and not isinstance(cn_, ast.Name):
                return self.kind(cn_, f, {}, depth + 1)
            return OTHER
        if isinstance(node, ast.Attribute):
            if u(node).endswith(".max") and "finfo" in u(node):
                return NONNEG
            return OTHER
        if isinstance(node, ast.Call):
            cn = call_name(node) or ""
            short = cn.split(".")[-1]
            if cn in ("np.linalg.norm", "numpy.linalg.norm", "abs", "np.abs", "math.sqrt", "np.sqrt", "math.fabs", "np.fabs", "np.absolute"):
                return NONNEG
            if short == "norm_vector":
                return UNIT0
            if cn in ("np.zeros",):
                return ZERO
            if cn in ("max", "np.maximum", "np.fmax"):
                ks = [self.kind(a, f, env, depth + 1) for a in node.args]
                return NONNEG if any(k in (NONNEG, ZERO) for k in ks) else OTHER
            if cn in ("min", "np.minimum"):
                ks = [self.kind(a, f, env, depth + 1) for a in node.args]
                return NONNEG if ks and all(k in (NONNEG, ZERO) for k in ks) else OTHER
            if cn in ("float", "np.float64"):
                return self.kind(node.args[0], f, env, depth + 1) if node.args else OTHER
            d = dot_args(node)
            if d is not None and u(d[0]) == u(d[1]):
                return NONNEG
            s = self._call_summary(node, f, env)
            if s is not None and not isinstance(s, tuple):
                return s
            return OTHER
        if isinstance(node, ast.Subscript):
            if isinstance(node.value, ast.Call) or isinstance(node.value, ast.Name):
                i = const(node.slice)
                inner = self.kind_tuple(node.value, f, env) if isinstance(node.value, ast.Call) else env.get(node.value.id)
                if isinstance(inner, tuple) and isinstance(i, int) and -len(inner) <= i < len(inner):
                    return inner[i]
            return OTHER
        if isinstance(node, ast.BinOp):
            a = self.kind(node.left, f, env, depth + 1)
            b = self.kind(node.right, f, env, depth + 1)
            if isinstance(node.op, (ast.Mult, ast.Add, ast.Div)) and a in (NONNEG, ZERO) and b in (NONNEG, ZERO):
                return NONNEG if not (isinstance(node.op, ast.Div) and b == ZERO) else OTHER
            if isinstance(node.op, ast.Mult) and u(node.left) == u(node.right):
                return NONNEG
            if isinstance(node.op, ast.Pow) and const(node.right) in (2, 2.0):
                return NONNEG
            return OTHER
        if isinstance(node, ast.IfExp):
            return join(self.kind(node.body, f, env, depth + 1), self.kind(node.orelse, f, env, depth + 1))
        return OTHER
