"""Part of E6 — 'by construction' lattice for returned values:

  NONNEG  a scalar that is >= 0 by the way it is built (norm, sqrt, abs, 0.0, max(.,0), a callee's NONNEG result ...)
  UNIT0   a vector that is norm_vector(...) (unit or zero) or np.zeros(...)
  ZERO    np.zeros(3) / 0.0
  OTHER   anything else (no claim)

Return summaries are tuples of these per return position, joined over all return statements, computed on demand
through package-internal calls.
"""
import ast

from ..core.astutil import u, call_name, const, iter_stmts, dot_args
from ..core.index import FuncInfo

NONNEG, UNIT0, ZERO, OTHER, NONE = "NONNEG", "UNIT0", "ZERO", "OTHER", "NONE"


def join(a, b):
    if a is None:
        return b
    if b is None:
        return a
    if a == b:
        return a
    if {a, b} == {NONNEG, ZERO}:
        return NONNEG
    if {a, b} == {UNIT0, ZERO}:
        return UNIT0
    if NONE in (a, b):
        return a if b == NONE else b   # `None` placeholders (no intersection) carry no claim either way
    return OTHER


class Signs:
    def __init__(self, idx):
        self.idx = idx
        self._sum = {}
        self._busy = set()

    def summary(self, f):
        """tuple of kinds (or a single kind) for f's return value"""
        if f.key in self._sum:
            return self._sum[f.key]
        if f.key in self._busy:
            return None
        self._busy.add(f.key)
        env = self._env(f)
        out = None
        for st in iter_stmts(f.node.body):
            if isinstance(st, ast.Return) and st.value is not None:
                v = self.kind_tuple(st.value, f, env, st.lineno)
                if out is None:
                    out = v
                elif isinstance(out, tuple) and isinstance(v, tuple) and len(out) == len(v):
                    out = tuple(join(a, b) for a, b in zip(out, v))
                elif not isinstance(out, tuple) and not isinstance(v, tuple):
                    out = join(out, v)
                else:
                    out = OTHER
        self._busy.discard(f.key)
        self._sum[f.key] = out
        return out

    def _env(self, f):
        """name -> list of (lineno, value node | ('elt', i, call node))"""
        env = {}
        for st in iter_stmts(f.node.body):
            if isinstance(st, ast.Assign):
                for t in st.targets:
                    if isinstance(t, ast.Name):
                        env.setdefault(t.id, []).append((st.lineno, st.value))
                    elif isinstance(t, ast.Tuple):
                        for i, e in enumerate(t.elts):
                            if isinstance(e, ast.Name):
                                if isinstance(st.value, ast.Tuple) and len(st.value.elts) == len(t.elts):
                                    env.setdefault(e.id, []).append((st.lineno, st.value.elts[i]))
                                else:
                                    env.setdefault(e.id, []).append((st.lineno, ("elt", i, st.value)))
            elif isinstance(st, ast.AugAssign) and isinstance(st.target, ast.Name):
                env.setdefault(st.target.id, []).append((st.lineno, ("aug", st.op, st.value)))
        return env

    def kind_tuple(self, node, f, env, at):
        if isinstance(node, ast.Tuple):
            return tuple(self.kind(e, f, env, at) for e in node.elts)
        if isinstance(node, ast.Subscript) and isinstance(node.slice, ast.Slice) and isinstance(node.value, ast.Call):
            inner = self.kind_tuple(node.value, f, env, at)
            if isinstance(inner, tuple) and node.slice.step is None:
                lo = const(node.slice.lower) if node.slice.lower is not None else 0
                hi = const(node.slice.upper) if node.slice.upper is not None else len(inner)
                if isinstance(lo, int) and isinstance(hi, int):
                    return inner[lo:hi]
            return OTHER
        if isinstance(node, ast.Name):
            defs = env.get(node.id, [])
            if len(defs) == 1 and not isinstance(defs[0][1], tuple) and isinstance(defs[0][1], (ast.Call, ast.Tuple, ast.Subscript)):
                return self.kind_tuple(defs[0][1], f, env, at)
        if isinstance(node, ast.Call):
            callee = self.idx.resolve_call(f.module, node, f.cls)
            if isinstance(callee, FuncInfo):
                s = self.summary(callee)
                if s is not None:
                    return s
        return self.kind(node, f, env, at)

    def kind(self, node, f, env, at, depth=0):
        if depth > 12:
            return OTHER
        if isinstance(node, ast.Constant):
            if node.value is None:
                return NONE
            if isinstance(node.value, (int, float)) and not isinstance(node.value, bool):
                return ZERO if node.value == 0 else (NONNEG if node.value > 0 else OTHER)
            return OTHER
        if isinstance(node, ast.Name):
            r = self.idx.resolve_name(f.module, node.id)
            if node.id not in env and r and r[0] == "const" and isinstance(r[1], (int, float)):
                return NONNEG if r[1] >= 0 else OTHER
            defs = env.get(node.id)
            if not defs:
                return OTHER
            out = None
            for ln, v in defs:
                if isinstance(v, tuple) and v[0] == "elt":
                    k = self._elt(v[1], v[2], f)
                elif isinstance(v, tuple) and v[0] == "aug":
                    k = OTHER
                    # x *= positive / x += nonneg keep NONNEG only when every other definition is NONNEG; stay conservative
                else:
                    k = self.kind(v, f, {n: d for n, d in env.items() if n != node.id} | {node.id: [d for d in defs if d[0] < ln]}, ln, depth + 1)
                out = join(out, k)
            return out or OTHER
        if isinstance(node, ast.Call):
            cn = call_name(node) or ""
            short = cn.split(".")[-1]
            if cn in ("np.linalg.norm", "numpy.linalg.norm", "abs", "np.abs", "math.sqrt", "np.sqrt", "math.fabs", "np.fabs", "np.absolute"):
                return NONNEG
            if short == "norm_vector":
                return UNIT0
            if cn in ("np.zeros",):
                return ZERO
            if cn in ("max", "np.maximum", "np.fmax"):
                ks = [self.kind(a, f, env, at, depth + 1) for a in node.args]
                return NONNEG if any(k in (NONNEG, ZERO) for k in ks) else OTHER
            if cn in ("min", "np.minimum"):
                ks = [self.kind(a, f, env, at, depth + 1) for a in node.args]
                return NONNEG if ks and all(k in (NONNEG, ZERO) for k in ks) else OTHER
            if cn in ("float", "np.float64"):
                return self.kind(node.args[0], f, env, at, depth + 1) if node.args else OTHER
            d = dot_args(node)
            if d is not None and u(d[0]) == u(d[1]):
                return NONNEG
            callee = self.idx.resolve_call(f.module, node, f.cls)
            if isinstance(callee, FuncInfo):
                s = self.summary(callee)
                if s is not None and not isinstance(s, tuple):
                    return s
            return OTHER
        if isinstance(node, ast.Subscript) and isinstance(node.value, ast.Call):
            i = const(node.slice)
            callee = self.idx.resolve_call(f.module, node.value, f.cls)
            if isinstance(callee, FuncInfo) and isinstance(i, int):
                s = self.summary(callee)
                if isinstance(s, tuple) and -len(s) <= i < len(s):
                    return s[i]
            return OTHER
        if isinstance(node, ast.BinOp):
            a = self.kind(node.left, f, env, at, depth + 1)
            b = self.kind(node.right, f, env, at, depth + 1)
            if isinstance(node.op, (ast.Mult, ast.Add, ast.Div)) and a in (NONNEG, ZERO) and b in (NONNEG, ZERO):
                return NONNEG if not (isinstance(node.op, ast.Div) and b == ZERO) else OTHER
            if isinstance(node.op, ast.Mult) and u(node.left) == u(node.right):
                return NONNEG
            if isinstance(node.op, ast.Pow) and const(node.right) in (2, 2.0):
                return NONNEG
            return OTHER
        if isinstance(node, ast.IfExp):
            return join(self.kind(node.body, f, env, at, depth + 1), self.kind(node.orelse, f, env, at, depth + 1))
        return OTHER

    def _elt(self, i, call, f):
        if isinstance(call, ast.Call):
            callee = self.idx.resolve_call(f.module, call, f.cls)
            if isinstance(callee, FuncInfo):
                s = self.summary(callee)
                if isinstance(s, tuple) and i < len(s):
                    return s[i]
        return OTHER
